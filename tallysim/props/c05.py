"""C05 - every well-formed statement row becomes exactly one transaction; a malformed row is skipped
on its own.

exploration (partial): corrupt-at-rest of exactly one row (each enumerated class) and torn files
(truncation at an arbitrary character boundary); fidelity of the fault-free parse as a by-product of
knowing what was written.  See DESIGN.md 5.5.
"""
import math
import os
import shutil

from .. import proc, util
from ..models import statement as st

ID = 'C05'
LEVEL = 'exploration'
COMPONENTS = {
    'real': ['tally.parsers.parse_generic_csv (with _iter_rows_with_delimiter, parse_amount)', 'tally.format_parser.parse_format_string',
             'tally.config_loader.resolve_source_format (delimiter / has_header / negate_amount overrides)', 'csv, datetime'],
    'stub': ['the damaged row / torn download (corrupt-at-rest on the simulated disk)'],
    'not_executed': ['rule matching beyond the empty rule set (classification is not the subject)'],
}
ASSUMPTIONS = [
    'the generator stays inside what the statement fixes: no BOM, no trailing text after the date cell, balanced quotes, regex delimiters that '
    'match whole lines, files cut only at character boundaries (an undecodable file is an unreadable source, which is C11\'s subject)',
    'the row containing the cut of a torn file is not judged (a shortened cell can still be a well-formed cell)',
    'location is not part of the statement and is not compared',
]
RULE = ('a row table is rendered under a seeded layout (column order with skipped columns / extra captures / description template / location; '
        'delimiter none ; | tab regex; header or not; both decimal conventions; {amount} {-amount} {+amount} negate_amount; amount styles plain, '
        'thousands, currency, parentheses; quoted cells with embedded delimiters, quotes and newlines; CRLF/LF; final newline or not).  Then '
        'exactly one row is damaged (too few cells, bad date, empty description, unparsable amount, zero, nan/inf, blank line) or the file is cut, '
        'or the undamaged file is read under a read fault (EIO/ESTALE/ETIMEDOUT/EAGAIN/EINTR/EBUSY after k characters, at the first read or at '
        'the read that would report EOF; once or persistently), or one byte in it is not UTF-8 - then the reader may refuse the file but never hands '
        'out other transactions than the clean read.  One file in sixteen has 130-420 rows.  '
        'distinct_nontrivial counts distinct (layout class, delimiter, decimal, sign mode, corruption class, position) tuples.')

CLASSES = ['too-few-cells', 'bad-date', 'empty-description', 'bad-amount', 'zero', 'nonfinite', 'blank-line']


def runs(tier):
    return 320 if tier == 'quick' else 30000


def parse_file(path, settings, source_name):
    """Inside a simulated process: resolve the source like load_config does, parse, return canonical txns."""
    from tally.config_loader import resolve_source_format
    from tally.parsers import parse_generic_csv
    src = resolve_source_format(dict(settings))
    try:
        txns = parse_generic_csv(path, src['_format_spec'], [], source_name=src.get('name', 'CSV'),
                                 decimal_separator=src.get('decimal_separator', '.'))
    except Exception as e:
        root_ = os.path.dirname(os.path.dirname(path))
        return {'exception': ('%s: %s' % (type(e).__name__, e)).replace(os.path.realpath(root_), '<ROOT>').replace(root_, '<ROOT>')}
    out = []
    for t in txns:
        a = t['amount']
        out.append({'description': t['raw_description'], 'date': t['date'].strftime('%Y-%m-%d'),
                    'amount': a if math.isfinite(a) else repr(a), 'source': t['source'], 'field': t.get('field')})
    return {'txns': out}


def parse_reuse(path, settings):
    """One resolved format spec used for two reads under two source names (a library user, `inspect`-like tools): the reader
    takes the spec as input and must hand back, each time, the rows under the name it was called with."""
    from tally.config_loader import resolve_source_format
    from tally.parsers import parse_generic_csv
    src = resolve_source_format(dict(settings))
    spec = src['_format_spec']
    import re as _re

    def _state():
        # object addresses are not part of the state (and differ from process to process)
        return _re.sub(r'0x[0-9a-fA-F]+', '0x?', repr(sorted((k, repr(v)) for k, v in vars(spec).items())))
    before = _state()
    reads = []
    for nm in ('First Reader', 'Second Reader'):
        try:
            txns = parse_generic_csv(path, spec, [], source_name=nm, decimal_separator=src.get('decimal_separator', '.'))
        except Exception as e:
            root_ = os.path.dirname(os.path.dirname(path))
            reads.append({'exception': ('%s: %s' % (type(e).__name__, e)).replace(os.path.realpath(root_), '<ROOT>').replace(root_, '<ROOT>')})
            continue
        reads.append({'txns': [{'description': t['raw_description'], 'date': t['date'].strftime('%Y-%m-%d'),
                                'amount': t['amount'] if math.isfinite(t['amount']) else repr(t['amount']), 'source': t['source'],
                                'field': t.get('field')} for t in txns]})
    after = _state()
    return {'reads': reads, 'spec_unchanged': before == after, 'spec_before': before[:400], 'spec_after': after[:400]}


def parse_two(path_a, settings_a, path_b, settings_b):
    """Two sources read one after the other in one process (what `tally up` does); returns the second one's result."""
    parse_file(path_a, settings_a, settings_a.get('name'))
    return parse_file(path_b, settings_b, settings_b.get('name'))


def rid_of(desc):
    import re
    m = re.findall(r'r(\d+)', desc)
    return int(m[-1]) if m else None


def same_txn(a, b):
    if a is None or b is None:
        return a is b
    if isinstance(a['amount'], str) or isinstance(b['amount'], str):
        return False
    return (a['description'] == b['description'] and a['date'] == b['date'] and abs(a['amount'] - b['amount']) < 1e-9
            and a['source'] == b['source'] and (a['field'] or None) == (b['field'] or None))


def bad_date(rng, lay, good):
    """A date cell that does NOT match the source's date format.  Candidates are near misses derived from the correct
    cell (wrong digit count, wrong separator, out-of-range field, trailing junk) and plain garbage; which of them do not
    match is decided by the definition of the format codes (datetime.strptime), not by tally."""
    import datetime
    import re as _re
    fmt = lay['date_format']
    cands = ['notadate', '13/45/2025', '2025-02-30', '31.02.2025', '00/00/0000', good + 'x', 'x' + good, good[:-1], good[1:],
             good.replace('/', '-') if '/' in good else good.replace('-', '/') if '-' in good else good.replace('.', '/'),
             _re.sub(r'(\d{4})', lambda m: m.group(1)[2:], good, count=1),      # 2-digit year where 4 are required
             _re.sub(r'(\d{4})', lambda m: '0' + m.group(1), good, count=1),    # 5-digit year
             _re.sub(r'(\d+)', lambda m: '00' + m.group(1), good, count=1),     # over-long first field
             _re.sub(r'(\d+)', lambda m: '+' + m.group(1), good, count=1),      # signed field
             _re.sub(r'(\d+)', lambda m: m.group(1) + '.0', good, count=1),
             _re.sub(r'(\d+)', '0', good, count=1), _re.sub(r'(\d+)', '99', good, count=1), good.replace('20', '2O', 1),
             good + good[-3:], good.upper() + '?' if any(ch.isalpha() for ch in good) else good + '/']
    if ' ' in fmt:
        cands += ['99 Foo 2025', good.replace(' ', '  ', 1), good.replace(' ', '', 1)]
    rng.shuffle(cands)
    for cand in cands:
        if not cand.strip() or (' ' not in fmt and ' ' in cand):
            continue
        if lay['delimiter'] == 'regex' and (' ' in cand or not cand.strip()):
            continue
        try:
            datetime.datetime.strptime(cand.strip(), fmt)
        except ValueError:
            return cand
    return 'notadate'


def damage(rng, lay, row, cls):
    """A physical line replacing the row's record, damaged in exactly one way."""
    cells = st.row_cells(lay, row)
    cols = lay['cols']
    if cls == 'blank-line':
        return rng.choice(['', '  ', '\t'] if lay['delimiter'] != 'tab' else ['', '  '])
    if cls == 'too-few-cells':
        if lay['delimiter'] == 'regex':
            return rng.choice(['garbage', cells[0], cells[0] + '   ' + cells[1]])
        # needed: indices up to the highest mapped column
        need = max(i for i, c in enumerate(cols) if c != 'skip')
        keep = rng.randint(1, need) if need >= 1 else 1
        return st.join_cells(lay, cells[:keep])
    idx = {c: i for i, c in enumerate(cols)}
    if cls == 'bad-date':
        cells[idx['date']] = bad_date(rng, lay, cells[idx['date']])
    elif cls == 'empty-description':
        cells[idx['description']] = rng.choice(['', '   '])
    elif cls == 'bad-amount':
        # strings that are not a number under either convention ('12.3.4' is 1234 with odd grouping when '.' groups thousands)
        cells[idx['amount']] = rng.choice(['abc', '12.3.4' if lay['decimal'] == '.' else '12,3,4', '--5', '', 'N/A', '1e', '5 USD', '$'])
    elif cls == 'zero':
        z = rng.choice(['0', '0.00', '-0.00', '$0.00', '(0.00)', '0,00'])
        if lay['decimal'] == ',' and z in ('0.00', '-0.00', '$0.00', '(0.00)'):
            z = z.replace('.', ',')
        if lay['decimal'] == '.' and z == '0,00':
            z = '0.00'
        cells[idx['amount']] = z
    elif cls == 'nonfinite':
        cells[idx['amount']] = rng.choice(['nan', 'inf', '-inf', 'NaN', 'Infinity', '-Infinity', '(inf)', '$nan'])
    if lay['delimiter'] == 'regex' and any(c.strip() == '' for c in cells):
        return None
    return st.join_cells(lay, cells)


ODD_SEPARATORS = ['\x0b', '\x0c', '\x1c', '\x1d', '\x1e', '\x85', '\u2028', '\u2029']


def build_case(rng, tier, i=None):
    # one run in nine (by the run index) is a statement with no delimiter configured in which nearly every description carries the
    # same punctuation, one profile after the other: what guesses the dialect from the text has something to latch on to
    prof = ('apostrophes', 'semicolons', 'bars', 'backslashes', 'tabs')[(i // 9) % 5] if i is not None and i % 9 == 4 else None
    lay = st.gen_layout(rng, rich=True, delimiter=None) if prof else st.gen_layout(rng, rich=True)
    rich = lay['delimiter'] != 'regex'
    big = rng.random() < 0.06
    # sizes vary: now and then a statement of a few hundred rows (longer than any read-ahead block or small cache)
    rows = st.gen_rows(rng, rng.randint(130, 420) if big else rng.randint(3 if prof else 1, 8), first_id=1, allow_rich=rich, profile=prof)
    if rich and lay['mode'] == 1 and lay['eol'] == '\n' and rng.random() < 0.25:
        # a quoted cell spanning several physical lines, some of them empty or blank
        r = rng.choice(rows)
        r['desc'] = r['desc'].replace(' r%d' % r['id'], rng.choice(['\nline2 r%d', '\n\nline3 r%d', '\n  \nline3 r%d', '\n,\nline3 r%d',
                                                                     '\n"q"\nline3 r%d']) % r['id'])
    if rich and lay['mode'] == 2 and lay['eol'] == '\n' and rng.random() < 0.15:
        r = rng.choice(rows)
        k = lay['extras'][-1]
        r.setdefault('caps_override', {})[k] = 'two\n\nlines'
    if lay['delimiter'] == 'regex':
        for r in rows:
            r['desc'] = ' '.join(r['desc'].split())
            r['loc'] = ''
    if rng.random() < 0.3:
        # characters that some line splitters (str.splitlines) take for line ends and the file reader does not:
        # inside a description they are ordinary characters of the cell
        r = rng.choice(rows)
        if '\n' not in r['desc'] and ' ' in r['desc'].strip():
            head, tail = r['desc'].strip().split(' ', 1)
            r['desc'] = r['desc'].replace(head + ' ' + tail, head + rng.choice(ODD_SEPARATORS) + tail, 1)
    st.fill_caps(rng, lay, rows)
    for r in rows:
        if r.get('caps_override') and len(lay['extras']) > 1:
            r['caps'].update(r['caps_override'])
    name = rng.choice(['Card', 'Bank', 'My Visa'])
    fname = rng.choice(['data/s.csv'] * 5 + ['data/statement.txt', 'data/EXPORT.TSV', 'data/export.tab', 'data/card.dat', 'data/Card Export 2025', 'data/s.CSV', 'data/s.csv.bak', 'data/2025-01.csv.txt'])
    settings = st.source_settings(lay, name, fname)
    expected = [st.expected_txn(lay, r, name) for r in rows]
    case = {'layout': lay, 'rows': rows, 'settings': settings, 'source': name, 'text': st.render(lay, rows),
            'expected': expected, 'faults': [], 'fname': fname}
    if rng.random() < 0.15:
        case['stderr_broken'] = rng.choice(['stderr', 'stderr', 'both'])
    classes = list(CLASSES)
    if lay['mode'] == 2:
        classes.remove('empty-description')
    if big:
        classes = rng.sample(classes, 2)
    for cls in classes:
        k = rng.randrange(len(rows))
        if big and rng.random() < 0.6:
            k = rng.randrange(len(rows) * 2 // 3, len(rows))
        raw = damage(rng, lay, rows[k], cls)
        if raw is None:
            continue
        rows2 = [dict(r) for r in rows]
        rows2[k]['raw'] = raw
        pos = 'only' if len(rows) == 1 else 'first' if k == 0 else 'last' if k == len(rows) - 1 else 'middle'
        case['faults'].append({'class': cls, 'row': rows[k]['id'], 'position': pos, 'text': st.render(lay, rows2), 'raws': {str(rows[k]['id']): raw}})
    if rng.random() < 0.35:
        # a second source whose amount cells are textually the same but read under the other conventions:
        # what the reader makes of a file must not depend on a file it read before
        lay2 = dict(lay)
        lay2['decimal'] = ',' if lay['decimal'] == '.' else '.'
        lay2['sign'] = rng.choice(['', '-', '+'])
        lay2['negate_setting'] = False
        lay2['has_header'] = rng.random() < 0.5
        ambiguous = ['12.50', '1,234', '1.234', '7,25', '1,234.56', '1.234,56', '100', '(3.50)', '$2,000']
        rows2 = []
        for r in rows:
            r2 = dict(r)
            r2['amount_text'] = st.amount_cell(lay, r) if rng.random() < 0.6 else rng.choice(ambiguous)
            rows2.append(r2)
        rows1 = [dict(r) for r in rows]
        for r1 in rows1:
            if rng.random() < 0.4:
                r1['amount_text'] = rng.choice(ambiguous)
        if lay['delimiter'] != 'regex' or all(' ' not in (r.get('amount_text') or '') for r in rows1 + rows2):
            case['pair'] = {'settings_a': st.source_settings(lay, name, 'data/a.csv'), 'text_a': st.render(lay, rows1),
                            'settings_b': st.source_settings(lay2, 'Second', 'data/b.csv'), 'text_b': st.render(lay2, rows2)}
    if len(rows) >= 3:
        # two adjacent rows damaged in the same way (a block of "Pending" rows): each is skipped on its own
        k = rng.randrange(1, len(rows) - 1)
        bad_cell = bad_date(rng, lay, st.date_cell(lay, rows[k]))
        rows2 = [dict(r) for r in rows]
        ok = True
        for j in (k, k + 1):
            cells = st.row_cells(lay, rows[j])
            cells[lay['cols'].index('date')] = bad_cell
            if lay['delimiter'] == 'regex' and any(ch.strip() == '' for ch in cells):
                ok = False
            rows2[j]['raw'] = st.join_cells(lay, cells)
        if ok:
            case['faults'].append({'class': 'bad-date-run', 'row': rows[k]['id'], 'row2': rows[k + 1]['id'], 'position': 'middle',
                                   'text': st.render(lay, rows2), 'raws': {str(rows[j]['id']): rows2[j]['raw'] for j in (k, k + 1)}})
    text = case['text']
    lines = st.render_lines(lay, rows)
    # record end offsets (in characters) so that "rows that end before the cut" is well defined
    ends = []
    off = 0
    for j, ln in enumerate(lines):
        off += len(ln)
        if j < len(lines) - 1 or lay['final_newline']:
            off += len(lay['eol'])
        ends.append(off)
    hdr = 1 if lay['has_header'] else 0
    for _ in range(3 if tier == 'quick' else 6):
        cut = rng.randint(0, len(text))
        complete = [rows[j]['id'] for j in range(len(rows)) if ends[j + hdr] <= cut]
        # a row whose record ended exactly at the cut without its line terminator is still complete
        if not lay['final_newline'] and cut == len(text):
            complete = [r['id'] for r in rows]
        case['faults'].append({'class': 'truncate', 'cut': cut, 'complete': complete, 'position': 'tail', 'text': text[:cut]})
    # the disk or network share hiccups while the (undamaged) file is being read: once (a retry would succeed) or for good
    n_chars = len(text)
    for _ in range(2):
        how = {'kind': 'eio', 'errno': rng.choice(['EIO', 'EIO', 'ESTALE', 'ETIMEDOUT', 'EAGAIN', 'EINTR', 'EBUSY'])}
        r = rng.random()
        if r < 0.25:
            how['at_eof'] = True
            pos = 'eof'
        else:
            how['after'] = rng.randint(1, max(1, n_chars - 1)) if r < 0.85 else 0
            pos = 'start' if how['after'] == 0 else 'first-half' if how['after'] * 2 < n_chars else 'second-half'
        if rng.random() < 0.6:
            how['once'] = True
        case['faults'].append({'class': 'read-fault-once' if how.get('once') else 'read-fault', 'how': how, 'position': pos})
    # one byte that is not UTF-8 inside one description (an export in a legacy code page): the file is either refused as a whole
    # or read row by row - never partly, never twice
    cands = [j for j, r in enumerate(rows) if '\n' not in r['desc'] and 'raw' not in r and lay['mode'] == 1]
    if cands and (big or rng.random() < 0.4):
        j = rng.choice(cands[len(cands) // 2:] if big else cands)
        marker = 'r%d' % rows[j]['id']
        # the rest of the file is plain ASCII (so that every ASCII-compatible fallback decoding reads the other rows alike)
        clean = ''.join(ch if ord(ch) < 128 else {'É': 'E', 'Ü': 'U', '£': '$', '€': '$'}.get(ch, '~') for ch in text)
        lines_b = clean.encode('ascii')
        tok = (' ' + marker).encode()
        at = lines_b.find(tok)
        if at > 0 and lines_b.count(tok) == 1:
            bad = lines_b[:at] + rng.choice([b'\xe9', b'\xff', b'\xc3', b'\xa0']) + lines_b[at:]
            case['faults'].append({'class': 'bad-utf8', 'row': rows[j]['id'], 'position': 'late' if j * 2 >= len(rows) else 'early',
                                   'bytes': bad.decode('latin-1'), 'clean': clean, 'offset': at})
    return case


def execute(case, scratch):
    world = os.path.join(scratch, 'w')
    ctlp = os.path.join(scratch, 'ctl')
    violations = []
    lay = case['layout']
    count = {'files': 1, 'parses': 0}
    sets = {'tuples': set()}
    log = [['case', util.digest(case)]]
    laycls = 'mode%d%s%s%s' % (lay['mode'], '+extras' if lay['extras'] and lay['mode'] == 1 else '', '+skip' if lay['skips'] else '',
                               '+loc' if lay['location'] else '')

    def parse(text, reads=None):
        fname = case.get('fname', 'data/s.csv')       # what a statement file is called is not part of its format
        util.write_world(world, {fname: text})
        path = os.path.join(world, fname)
        plan = {'net': 'down'}
        if reads:
            plan['reads'] = {fname: reads}
        if case.get('stderr_broken'):
            # nobody reads the diagnostics (stderr closed / on a full disk): every write to it fails.  What the reader returns is
            # what it returns otherwise
            plan['stdout_fault'] = {'after_effect': -1, 'stream': 'both' if case['stderr_broken'] == 'both' else 'stderr'}
        r = proc.run_func(world, lambda: parse_file(path, case['settings'], case['source']), plan, ctl_parent=ctlp)
        if r.exit != 0 or r.result is None:
            raise proc.HarnessError('parse process failed: %s' % r.err[-1500:])
        count['parses'] += 1
        fired[0] = any(e.get('k') == 'readfault' for e in r.events)
        return r.result

    fired = [False]

    def sched(fault):
        return {'property': ID, 'case': dict(case, faults=[fault] if fault else [])}

    try:
        base = parse(case['text'])
        log.append(['base', util.digest(base)])
        exp = [e for e in case['expected'] if e is not None]
        delim = str(lay['delimiter'])
        if 'exception' in base:
            violations.append({'invariant': 'FID', 'signature': {'what': 'exception', 'delimiter': delim},
                               'witness': 'fault-free file raised %s' % base['exception'][:300], 'schedule': sched(None)})
            got = []
        else:
            got = base['txns']
            ok = len(got) == len(exp) and all(same_txn(g, e) for g, e in zip(got, exp))
            if not ok:
                what = 'count' if len(got) != len(exp) else 'values'
                j = next((j for j, (g, e) in enumerate(zip(got, exp)) if not same_txn(g, e)), min(len(got), len(exp)))
                violations.append({'invariant': 'FID', 'signature': {'what': what, 'delimiter': delim, 'sign': (lay['sign'] or 'plain') + ('+neg' if lay['negate_setting'] else ''),
                                                                     'decimal': lay['decimal']},
                                   'witness': 'fault-free parse of %d written rows gave %d transactions; first difference at #%d: got %s, written %s'
                                              % (len(exp), len(got), j, util.canon(got[j]) if j < len(got) else None,
                                                 util.canon(exp[j]) if j < len(exp) else None),
                                   'schedule': sched(None)})
        if 'txns' in base:
            # the same spec object used for two reads under two names
            util.write_world(world, {case.get('fname', 'data/s.csv'): case['text']})
            r = proc.run_func(world, lambda: parse_reuse(os.path.join(world, case.get('fname', 'data/s.csv')), case['settings']), {'net': 'down'}, ctl_parent=ctlp)
            if r.exit != 0 or r.result is None:
                raise proc.HarnessError('reuse parse process failed: %s' % r.err[-1500:])
            count['parses'] += 2
            ru = r.result
            log.append(['reuse', util.digest(ru)])
            for nm, rd in zip(('First Reader', 'Second Reader'), ru['reads']):
                want = [dict(t, source=nm) for t in base['txns']]
                if rd.get('txns') != want:
                    violations.append({'invariant': 'SEQ', 'signature': {'what': 'read-with-reused-spec-differs', 'which': nm.split()[0].lower()},
                                       'witness': 'one format spec, two reads of the same file as "First Reader" then "Second Reader": the %s gives %s, '
                                                  'a read on its own gives %s' % (nm, util.canon(rd)[:300], util.canon(want)[:300]),
                                       'schedule': sched(None)})
                    break
        by_id = {}
        for g in got:
            by_id.setdefault(rid_of(g['description']), []).append(g)
        for f in case['faults']:
            if f['class'] in ('read-fault', 'read-fault-once', 'bad-utf8'):
                if 'txns' not in base:
                    continue
                ref = got
                if f['class'] == 'bad-utf8':
                    clean = parse(f['clean'])
                    if 'txns' not in clean:
                        continue
                    ref = clean['txns']
                    res = parse(f['bytes'].encode('latin-1'))
                else:
                    res = parse(case['text'], reads=f['how'])
                    if not fired[0]:
                        count['read_faults_not_fired'] = count.get('read_faults_not_fired', 0) + 1
                        continue
                sets['tuples'].add('%s|%s|%s|%s|%s|%s' % (laycls, lay['delimiter'], lay['decimal'], 'n/a', f['class'], f['position']))
                count['fired.' + f['class']] = count.get('fired.' + f['class'], 0) + 1
                log.append(['fault', f['class'], util.digest(res)])
                if 'exception' in res:
                    continue          # the file is refused as a whole: nothing wrong was handed out
                have = res['txns']
                if f['class'] == 'bad-utf8':
                    # read under some fallback decoding: still one transaction per written row, in order, with the written values;
                    # only the damaged description may be spelled differently
                    ok = len(have) == len(ref) and all(
                        same_txn(a, b) or (rid_of(b['description']) == f['row'] and same_txn(dict(a, description=''), dict(b, description='')))
                        for a, b in zip(have, ref))
                else:
                    ok = len(have) == len(ref) and all(same_txn(a, b) for a, b in zip(have, ref))
                if not ok:
                    violations.append({'invariant': 'ISO', 'signature': {'class': f['class'], 'what': 'wrong-data-after-read-fault', 'delimiter': delim},
                                       'witness': 'the file could not be read cleanly (%s): the reader neither failed nor returned the %d transactions of '
                                                  'the clean read, it returned %d: %s' % (
                                                      f.get('how') or 'invalid UTF-8 byte at offset %d' % f['offset'], len(ref), len(have), util.canon(have)[:300]),
                                       'schedule': sched(f)})
                continue
            res = parse(f['text'])
            sets['tuples'].add('%s|%s|%s|%s|%s|%s' % (laycls, lay['delimiter'], lay['decimal'],
                                                    (lay['sign'] or 'plain') + ('+neg' if lay['negate_setting'] else ''), f['class'], f['position']))
            count['fired.' + f['class']] = count.get('fired.' + f['class'], 0) + 1
            log.append(['fault', f['class'], util.digest(res)])
            if 'exception' in res and case.get('stderr_broken') and ('Broken pipe' in res['exception'] or 'Errno 32' in res['exception']):
                # nobody reads stderr and the reader wanted to say something there: it may die of that, loudly (a command that carries on
                # with fewer rows is seen by C11 / C08 at command level)
                count['died_of_broken_stderr'] = count.get('died_of_broken_stderr', 0) + 1
                continue
            if 'exception' in res:
                violations.append({'invariant': 'ISO', 'signature': {'class': f['class'], 'what': 'exception', 'delimiter': delim},
                                   'witness': 'one damaged row (%s) made the whole parse raise %s' % (f['class'], res['exception'][:300]),
                                   'schedule': sched(f)})
                continue
            if f['class'] == 'truncate':
                keep = set(f['complete'])
                want = [g for g in got if rid_of(g['description']) in keep]
                have = [g for g in res['txns'] if rid_of(g['description']) in keep]
                if len(have) == len(want) + 1 and have[-1] is res['txns'][-1] and want and not same_txn(have[-1], want[-1]):
                    # the torn row itself (not judged): its shortened id token r13|3 can read as an earlier row's
                    have = have[:-1]
                if len(want) != len(have) or not all(same_txn(a, b) for a, b in zip(want, have)):
                    violations.append({'invariant': 'ISO', 'signature': {'class': 'truncate', 'what': 'complete-rows-differ', 'delimiter': delim},
                                       'witness': 'file cut at character %d: rows %s end before the cut; they gave %s, fault-free they give %s'
                                                  % (f['cut'], sorted(keep), util.canon(have)[:300], util.canon(want)[:300]),
                                       'schedule': sched(f)})
                continue
            rid = f['row']
            dmg = {rid, f.get('row2', rid)}
            others_want = [g for g in got if rid_of(g['description']) not in dmg]
            others_have = [g for g in res['txns'] if rid_of(g['description']) not in dmg]
            mine = [g for g in res['txns'] if rid_of(g['description']) in dmg]
            # a damaged row may no longer carry its id in the description (empty description): anything extra is also "mine"
            if len(others_have) != len(others_want) or not all(same_txn(a, b) for a, b in zip(others_want, others_have)):
                violations.append({'invariant': 'ISO', 'signature': {'class': f['class'], 'what': 'other-rows-differ', 'delimiter': delim},
                                   'witness': 'row r%d damaged (%s): the other rows gave %s, fault-free they give %s'
                                              % (rid, f['class'], util.canon(others_have)[:300], util.canon(others_want)[:300]),
                                   'schedule': sched(f)})
            elif mine:
                violations.append({'invariant': 'ISO', 'signature': {'class': f['class'], 'what': 'damaged-row-became-transaction'},
                                   'witness': 'row r%d damaged (%s) still became a transaction: %s' % (rid, f['class'], util.canon(mine[0])[:300]),
                                   'schedule': sched(f)})
        pair = case.get('pair')
        if pair:
            util.write_world(world, {'data/a.csv': pair['text_a'], 'data/b.csv': pair['text_b']})
            pa, pb = os.path.join(world, 'data/a.csv'), os.path.join(world, 'data/b.csv')
            r = proc.run_func(world, lambda: parse_file(pb, pair['settings_b'], 'Second'), {'net': 'down'}, ctl_parent=ctlp)
            alone = r.result
            r = proc.run_func(world, lambda: parse_two(pa, pair['settings_a'], pb, pair['settings_b']), {'net': 'down'}, ctl_parent=ctlp)
            after = r.result
            count['parses'] += 3
            count['pairs'] = count.get('pairs', 0) + 1
            log.append(['pair', util.digest(alone), util.digest(after)])
            if alone is None or after is None:
                raise proc.HarnessError('pair parse process failed')
            if util.canon(alone) != util.canon(after):
                violations.append({'invariant': 'SEQ', 'signature': {'what': 'second-source-depends-on-first'},
                                   'witness': 'the same file gives %s when read alone and %s when read after another source (decimal %r then %r)'
                                              % (util.canon(alone)[:300], util.canon(after)[:300], lay['decimal'], ',' if lay['decimal'] == '.' else '.'),
                                   'schedule': {'property': ID, 'case': dict(case, faults=[])}})
    finally:
        shutil.rmtree(scratch, ignore_errors=True)
    dig = util.digest(log)
    for v in violations:
        v['digest'] = dig
    return {'violations': violations, 'count': count, 'sets': {k: sorted(v) for k, v in sets.items()}, 'samples': [], 'digest': dig}


def run_one(seed, i, tier, scratch):
    rng = util.rng_for(seed, ID, i)
    case = build_case(rng, tier, i)
    res = execute(case, scratch)
    for v in res['violations']:
        v['schedule']['seed'] = seed
        v['schedule']['run'] = i
    if i < 2:
        res['samples'] = [{'seed': seed, 'run': i, 'settings': case['settings'], 'file': case['text'][:500],
                           'faults': [(f['class'], f.get('row'), f.get('cut')) for f in case['faults']],
                           'one_damaged_file': case['faults'][0]['text'][:400] if case['faults'] else None}]
    return res


def replay(schedule, scratch):
    res = execute(schedule['case'], scratch)
    for v in res['violations']:
        v['schedule'] = dict(schedule, case=v['schedule']['case'])
    return {'violations': res['violations'], 'digest': res['digest']}


def _line_starts(lay, rows):
    """{row id: (start offset, record length)} in the rendering of `rows`."""
    lines = st.render_lines(lay, rows)
    hdr = 1 if lay['has_header'] else 0
    out = {}
    off = 0
    for j, ln in enumerate(lines):
        if j >= hdr:
            out[rows[j - hdr]['id']] = (off, len(ln))
        off += len(ln) + len(lay['eol'])
    return out


def _map_offset(lay, old_rows, new_rows, off):
    """The character offset `off` of the old rendering, expressed in the new one (None when the record it fell into is gone)."""
    old, new = _line_starts(lay, old_rows), _line_starts(lay, new_rows)
    inside = None
    for r in old_rows:
        a, n = old[r['id']]
        if a <= off:
            inside = (r['id'], off - a)
    if inside is None:
        return off if not old_rows or off <= (len(st.header_line(lay)) if lay['has_header'] else 0) else None
    rid, delta = inside
    if rid not in new:
        return None
    return new[rid][0] + delta


def rebuild(case, keep_ids):
    """The same case over a subset of its rows: re-rendered file, re-derived single fault."""
    lay = case['layout']
    rows = [r for r in case['rows'] if r['id'] in keep_ids]
    if not rows:
        return None
    text = st.render(lay, rows)
    new = dict(case, rows=rows, text=text, expected=[st.expected_txn(lay, r, case['source']) for r in rows], faults=[])
    new.pop('pair', None)
    if not case['faults']:
        return new
    f = dict(case['faults'][0])
    cls = f['class']
    if cls == 'truncate':
        cut = _map_offset(lay, case['rows'], rows, f['cut'])
        if cut is None:
            return None
        starts = _line_starts(lay, rows)
        f.update(cut=cut, text=text[:cut], complete=[r['id'] for r in rows if starts[r['id']][0] + starts[r['id']][1] + (
            len(lay['eol']) if (r is not rows[-1] or lay['final_newline']) else 0) <= cut])
        if not lay['final_newline'] and cut == len(text):
            f['complete'] = [r['id'] for r in rows]
    elif cls in ('read-fault', 'read-fault-once'):
        how = dict(f['how'])
        if how.get('after'):
            a = _map_offset(lay, case['rows'], rows, how['after'])
            if a is None or a <= 0:
                return None
            how['after'] = a
        f['how'] = how
    elif cls == 'bad-utf8':
        if f['row'] not in keep_ids:
            return None
        clean = ''.join(ch if ord(ch) < 128 else {'É': 'E', 'Ü': 'U', '£': '$', '€': '$'}.get(ch, '~') for ch in text)
        b = clean.encode('ascii')
        tok = (' r%d' % f['row']).encode()
        at = b.find(tok)
        if at <= 0 or b.count(tok) != 1:
            return None
        old = f['bytes'].encode('latin-1')
        f.update(clean=clean, offset=at, bytes=(b[:at] + old[f['offset']:f['offset'] + 1] + b[at:]).decode('latin-1'))
    else:
        raws = f.get('raws') or {}
        if any(int(k) not in keep_ids for k in raws) or not raws:
            return None
        rows2 = [dict(r, raw=raws[str(r['id'])]) if str(r['id']) in raws else dict(r) for r in rows]
        f['text'] = st.render(lay, rows2)
    new['faults'] = [f]
    return new


def shrink_candidates(schedule):
    case = schedule['case']
    if case.get('pair') and not case['faults']:
        return
    ids = [r['id'] for r in case['rows']]
    f = case['faults'][0] if case['faults'] else None
    protect = set()
    if f:
        protect = {int(k) for k in (f.get('raws') or {})} | ({f['row']} if f.get('row') is not None else set())
    n = len(ids)
    chunk = max(1, n // 2)
    while chunk >= 1:
        for a in range(0, n, chunk):
            keep = [x for j, x in enumerate(ids) if not (a <= j < a + chunk) or x in protect]
            if len(keep) == n:
                continue
            new = rebuild(case, set(keep))
            if new is not None:
                yield dict(schedule, case=new)
        if chunk == 1:
            break
        chunk //= 2


def coverage(count, sets, samples, tier):
    return {
        'evaluations': count.get('parses', 0),
        'distinct_nontrivial': len(sets.get('tuples', ())),
        'rule': RULE,
        'samples': samples,
        'files_rendered': count.get('files', 0),
        'two_source_sequences': count.get('pairs', 0),
        'faults_fired': {k[6:]: v for k, v in count.items() if k.startswith('fired.')},
    }
