"""C17 - rule files are read by structure alone; malformed ones are rejected, not trimmed;
a rules file that cannot be loaded is reported.

exploration (partial): corrupt-at-rest (the enumerated single-point classes), torn tails at line
boundaries, read faults (EACCES/EIO/invalid UTF-8) - observed at the loaders and at `tally up` /
`tally diag`.  Layout clause as a by-product of randomised rendering.  See DESIGN.md 5.7.
"""
import os
import shutil

from .. import proc, util
from ..models import rulesfile as rf
from ..models import budget as bm

ID = 'C17'
LEVEL = 'exploration'
COMPONENTS = {
    'real': ['tally.merchant_engine.parse_merchants', 'tally.section_engine.parse_sections', 'tally.merchant_utils.get_all_rules/get_transforms',
             'tally.config_loader.load_config', '`tally up` and `tally diag` through tally.cli.main() as simulated processes'],
    'stub': ['the damaged / torn / unreadable stored file (corrupt-at-rest and read-fault injection)', 'TTY (none)', 'network (down)'],
    'not_executed': ['tally explain / discover (not named by the property for this clause)'],
}
ASSUMPTIONS = [
    'corruptions are restricted to the classes the statement enumerates (missing match/filter, unknown property, malformed let/field/priority, '
    'invalid expression); raw byte flips that give a different valid file are outside the oracle',
    'an error "names the line" when its line number is the damaged line or the header line of the damaged section',
    'at command level "reported" means stdout or stderr contains the text of the exception the loader raises for that very file',
    '{tag} expressions are not part of the validated set (dropped-when-not-evaluable is their documented behaviour, C02)',
]
RULE = ('a rules or views model is rendered under a seeded layout (comments, blanks, trailing blanks, CRLF, indentation, property order, key case, '
        'indented headers); every applicable single-point corruption of the enumerated classes and every line-boundary truncation is applied in turn '
        'and given to the loader in a fresh process; a sample is also put into a budget and run through `tally up` / `tally diag`, together with '
        'EACCES / EIO / invalid-UTF-8 read faults.  distinct_nontrivial counts distinct (file kind, corruption class, position class, observer) tuples.')

INVALID_EXPRS = ['contains("X"', 'amount > ', 'contains("X) and amount > 1', 'lambda: 1', 'import os', 'amount >> 2', '[1, 2]', 'amount > 1)',
                 # operators no reading of the language has (matrix product, bit operations, identity)
                 'amount @ 2 > 1', '~1 == -2', 'amount ^ 1 > 0', 'amount << 1 > 0', 'amount is None', 'amount & 1 > 0']


def runs(tier):
    return 120 if tier == 'quick' else 4800


# ----------------------------------------------------------------------------- corruption generation

PLAUSIBLE_RULE_KEYS = ['name', 'match_expr', 'line_number', 'let_bindings', 'fields', 'pattern', 'description', 'filter', 'tag',
                       'sub_category', 'amount', 'source', 'notes', 'is_categorization_rule', 'has_merchant', 'id', 'type', 'regex',
                       'mode', 'rule', 'matches', 'variables', 'transforms', 'Name', 'MATCH_EXPR']
PLAUSIBLE_VIEW_KEYS = ['name', 'filter_expr', 'filter_ast', 'variables', 'line_number', 'match', 'category', 'title', 'desc', 'where',
                       'tags', 'priority', 'Name', 'global_variables', 'sections']


def corruptions_rules(rng, model, text, linemap, eol):
    """Yield (class, position, new_text, allowed_lines) for a merchants.rules rendering."""
    lines = text.split(eol)
    nrules = len(model['rules'])

    def pos(i):
        return 'only' if nrules == 1 else 'first' if i == 0 else 'last' if i == nrules - 1 else 'middle'

    def put(ln, new):
        out = list(lines)
        if new is None:
            del out[ln - 1]
        else:
            out[ln - 1] = new
        return eol.join(out)

    for i, rule in enumerate(model['rules']):
        hdr = linemap[('rule', i, 'header', 0)]
        ml = linemap[('rule', i, 'match', 0)]
        yield 'delete-match', pos(i), put(ml, None), {hdr, hdr - 1 if ml < hdr else hdr}
        # rename one key to an unknown one
        keys = [k for k in linemap if k[0] == 'rule' and k[1] == i and k[2] != 'header']
        k = rng.choice(sorted(keys))
        ln = linemap[k]
        old = lines[ln - 1]
        key, rest = old.split(':', 1)
        bad = key[:-1] + ('x' if key[-1:] != 'x' else 'y') + 'q'
        yield 'unknown-key', pos(i), put(ln, bad + ':' + rest), {ln, hdr}
        # ... and to a word that is no property of the file format although the implementation may well know it (attribute
        # names of the rule objects, names used by the other file kinds, near misses)
        ind = key[:len(key) - len(key.lstrip())]
        plausible = ind + rng.choice(PLAUSIBLE_RULE_KEYS)
        if rng.random() < 0.5:
            yield 'unknown-key', pos(i), put(ln, plausible + ':' + rest), {ln, hdr}
        else:
            # as an extra line of an otherwise complete section
            out = list(lines)
            out.insert(ln, plausible + ': ' + rng.choice(['Other', 'contains("X")', '5', 'a, b']))
            yield 'unknown-key', pos(i), eol.join(out), {ln + 1, hdr}
        # invalid expression in match
        inv = rng.choice(INVALID_EXPRS)
        old = lines[ml - 1]
        yield 'invalid-match-expr', pos(i), put(ml, old.split(':', 1)[0] + ': ' + inv), {ml, hdr}
        for j, (n, e) in enumerate(rule['lets']):
            ln = linemap[('rule', i, 'let', j)]
            pre = lines[ln - 1].split(':', 1)[0]
            yield 'let-no-equals', pos(i), put(ln, '%s: %s %s' % (pre, n, e)), {ln, hdr}
            yield 'let-digit-name', pos(i), put(ln, '%s: 9%s = %s' % (pre, n, e)), {ln, hdr}
            yield 'invalid-let-expr', pos(i), put(ln, '%s: %s = %s' % (pre, n, rng.choice(INVALID_EXPRS))), {ln, hdr}
        for j, (n, e) in enumerate(rule['fields']):
            ln = linemap[('rule', i, 'field', j)]
            pre = lines[ln - 1].split(':', 1)[0]
            yield 'field-no-equals', pos(i), put(ln, '%s: %s %s' % (pre, n, 'x')), {ln, hdr}
            yield 'field-digit-name', pos(i), put(ln, '%s: 1%s = %s' % (pre, n, e)), {ln, hdr}
            yield 'invalid-field-expr', pos(i), put(ln, '%s: %s = %s' % (pre, n, rng.choice(INVALID_EXPRS))), {ln, hdr}
        if rule['priority'] is not None:
            ln = linemap[('rule', i, 'priority', 0)]
            pre = lines[ln - 1].split(':', 1)[0]
            yield 'priority-not-int', pos(i), put(ln, '%s: %s' % (pre, rng.choice(['high', '1.5', '', '5 0']))), {ln, hdr}
    for j, (n, e) in enumerate(model['variables']):
        ln = linemap[('var', j)]
        yield 'invalid-variable-expr', 'top', put(ln, '%s = %s' % (n, rng.choice(INVALID_EXPRS))), {ln}
    for j, (n, e) in enumerate(model['transforms']):
        ln = linemap[('transform', j)]
        yield 'invalid-transform-expr', 'top', put(ln, '%s = %s' % (n, rng.choice(INVALID_EXPRS))), {ln}


def corruptions_views(rng, model, text, linemap, eol):
    lines = text.split(eol)
    nv = len(model['views'])

    def pos(i):
        return 'only' if nv == 1 else 'first' if i == 0 else 'last' if i == nv - 1 else 'middle'

    def put(ln, new):
        out = list(lines)
        if new is None:
            del out[ln - 1]
        else:
            out[ln - 1] = new
        return eol.join(out)

    for i, v in enumerate(model['views']):
        hdr = linemap[('view', i, 'header', 0)]
        fl = linemap[('view', i, 'filter', 0)]
        yield 'delete-filter', pos(i), put(fl, None), {hdr, hdr - 1 if fl < hdr else hdr}
        old = lines[fl - 1]
        ind = old[:len(old) - len(old.lstrip())]
        yield 'unknown-key', pos(i), put(fl, ind + 'fliter: ' + v['filter']), {fl, hdr}
        out = list(lines)
        out.insert(fl, ind + rng.choice(PLAUSIBLE_VIEW_KEYS) + ': ' + rng.choice(['Other', 'total > 5', '5']))
        yield 'unknown-key', pos(i), eol.join(out), {fl + 1, hdr}
        yield 'invalid-filter-expr', pos(i), put(fl, ind + 'filter: ' + rng.choice(INVALID_EXPRS)), {fl, hdr}
        for j, (n, e) in enumerate(v['vars']):
            ln = linemap[('view', i, 'var%d' % j, 0)]
            yield 'invalid-view-variable-expr', pos(i), put(ln, '%s = %s' % (n, rng.choice(INVALID_EXPRS))), {ln, hdr}
    for j, (n, e) in enumerate(model['globals']):
        ln = linemap[('global', j)]
        yield 'invalid-variable-expr', 'top', put(ln, '%s = %s' % (n, rng.choice(INVALID_EXPRS))), {ln}


def truncated_rules(model, linemap, k):
    """Model of the file cut after physical line k, or ('error', header_line)."""
    m = {'variables': [v for j, v in enumerate(model['variables']) if linemap[('var', j)] <= k],
         'transforms': [v for j, v in enumerate(model['transforms']) if linemap[('transform', j)] <= k], 'rules': []}
    for i, r in enumerate(model['rules']):
        hdr = linemap[('rule', i, 'header', 0)]
        if hdr > k:
            break

        def has(key, j=0):
            return linemap.get(('rule', i, key, j), 10 ** 9) <= k
        r2 = {'name': r['name'], 'match': r['match'] if has('match') else None,
              'category': r['category'] if has('category') else '', 'subcategory': r['subcategory'] if has('subcategory') else '',
              'merchant': r['merchant'] if has('merchant') else '', 'tags': r['tags'] if has('tags') else [],
              'priority': r['priority'] if has('priority') else None,
              'lets': [v for j, v in enumerate(r['lets']) if has('let', j)],
              'fields': [v for j, v in enumerate(r['fields']) if has('field', j)]}
        if r2['match'] is None or not (r2['category'] or r2['tags']):
            return ('error', hdr)
        m['rules'].append(r2)
    return ('ok', rf.expected_engine(m))


def truncated_views(model, linemap, k):
    m = {'globals': [v for j, v in enumerate(model['globals']) if linemap[('global', j)] <= k], 'views': []}
    for i, v in enumerate(model['views']):
        hdr = linemap[('view', i, 'header', 0)]
        if hdr > k:
            break

        def has(key):
            return linemap.get(('view', i, key, 0), 10 ** 9) <= k
        if not has('filter'):
            return ('error', hdr)
        m['views'].append({'name': v['name'], 'filter': v['filter'], 'description': v['description'] if has('description') else None,
                           'vars': [x for j, x in enumerate(v['vars']) if has('var%d' % j)]})
    return ('ok', rf.expected_views(m))


# ----------------------------------------------------------------------------- observers (inside simulated processes)

def load_rules_text(text, mode='first_match'):
    from tally import merchant_engine as me
    try:
        e = me.parse_merchants(text, match_mode=mode)
    except me.MerchantParseError as ex:
        return {'error': str(ex), 'line': ex.line_number, 'type': 'MerchantParseError'}
    except Exception as ex:
        return {'error': str(ex), 'line': None, 'type': type(ex).__name__}
    return {'ok': {
        'variables': dict(e.variables), 'transforms': [list(t) for t in e.transforms],
        'rules': [{'name': r.name, 'match_expr': r.match_expr, 'category': r.category, 'subcategory': r.subcategory,
                   'merchant': r.merchant, 'tags': sorted(r.tags), 'priority': r.priority,
                   'let_bindings': [list(b) for b in r.let_bindings], 'fields': dict(r.fields)} for r in e.rules]}}


def load_views_text(text):
    from tally import section_engine as se
    try:
        c = se.parse_sections(text)
    except se.SectionParseError as ex:
        return {'error': str(ex), 'line': ex.line_number, 'type': 'SectionParseError'}
    except Exception as ex:
        return {'error': str(ex), 'line': None, 'type': type(ex).__name__}
    return {'ok': {'globals': dict(c.global_variables),
                   'views': [{'name': s.name, 'filter': s.filter_expr, 'description': s.description,
                              'variables': dict(s.variables)} for s in c.sections]}}


def load_file_struct(kind, path):
    """The loaders that read from disk, returning the same structure as load_*_text."""
    from pathlib import Path
    try:
        if kind == 'rules':
            from tally import merchant_engine as me
            e = me.load_merchants_file(Path(path))
            return {'ok': {
                'variables': dict(e.variables), 'transforms': [list(t) for t in e.transforms],
                'rules': [{'name': r.name, 'match_expr': r.match_expr, 'category': r.category, 'subcategory': r.subcategory,
                           'merchant': r.merchant, 'tags': sorted(r.tags), 'priority': r.priority,
                           'let_bindings': [list(b) for b in r.let_bindings], 'fields': dict(r.fields)} for r in e.rules]}}
        from tally import section_engine as se
        cfg = se.load_sections(path)
        return {'ok': {'globals': dict(cfg.global_variables),
                       'views': [{'name': s.name, 'filter': s.filter_expr, 'description': s.description,
                                  'variables': dict(s.variables)} for s in cfg.sections]}}
    except Exception as ex:
        return {'error': '%s: %s' % (type(ex).__name__, ex)}


def load_file_direct(kind, path):
    """The loader's own failure for a stored file (used as the text commands must report)."""
    from pathlib import Path
    try:
        if kind == 'rules':
            from tally import merchant_engine as me
            me.load_merchants_file(Path(path))
        elif kind == 'csv':
            from tally import merchant_utils as mu
            mu.load_merchant_rules(path)
        else:
            from tally import section_engine as se
            se.load_sections(path)
    except Exception as ex:
        return {'error': str(ex), 'type': type(ex).__name__}
    return {'ok': True}


# ----------------------------------------------------------------------------- run

def in_proc(world, ctlp, fn, reads=None):
    r = proc.run_func(world, fn, {'reads': reads or {}, 'net': 'down'}, ctl_parent=ctlp)
    if r.exit != 0 or r.result is None:
        raise proc.HarnessError('loader process failed: exit=%s err=%s' % (r.exit, r.err[-1500:]))
    return r.result


def check_loader_case(kind, cls, position, text, allowed, world, ctlp):
    fn = (lambda: load_rules_text(text)) if kind == 'rules' else (lambda: load_views_text(text))
    res = in_proc(world, ctlp, fn)
    if 'ok' in res:
        return ('accepted', 'a %s file with a %s (%s section) was accepted: %d sections returned' % (
            kind, cls, position, len(res['ok'].get('rules', res['ok'].get('views', [])))))
    want = 'MerchantParseError' if kind == 'rules' else 'SectionParseError'
    if res['type'] != want:
        return ('wrong-exception', '%s file with %s raised %s: %s' % (kind, cls, res['type'], res['error'][:200]))
    if res['line'] not in allowed:
        return ('wrong-line', '%s file with %s: error names line %s, damaged line/section header is %s: %s' % (
            kind, cls, res['line'], sorted(allowed), res['error'][:200]))
    return None


def execute(case, scratch):
    """case: a fully rendered schedule (texts, corruptions, command cases)."""
    world = os.path.join(scratch, 'w')
    ctlp = os.path.join(scratch, 'ctl')
    violations = []
    count = {'files': 0, 'loader_cases': 0, 'command_runs': 0, 'layout_checks': 0, 'torn_cases': 0}
    sets = {'tuples': set()}
    log = [['case', util.digest(case)]]
    try:
        util.write_world(world, {})
        for f in case['files']:
            kind = f['kind']
            count['files'] += 1
            # layout clause (by-product): the uncorrupted rendering parses to the model
            fn = (lambda t=f['text']: load_rules_text(t)) if kind == 'rules' else (lambda t=f['text']: load_views_text(t))
            res = in_proc(world, ctlp, fn)
            count['layout_checks'] += 1
            log.append(['layout', kind, util.digest(res)])
            if kind == 'rules' and res.get('ok') == f['expected']:
                # what is read is determined by the file alone - not by the rule mode the engine will match under
                res2 = in_proc(world, ctlp, lambda t=f['text']: load_rules_text(t, 'most_specific'))
                count['layout_checks'] += 1
                log.append(['layout-most-specific', util.digest(res2)])
                if res2.get('ok') != f['expected']:
                    res = res2
            if res.get('ok') == f['expected']:
                # the same file on disk, under each line-ending style, through the loader that reads files
                eol_now = '\r\n' if '\r\n' in f['text'] else '\n'
                for style, eol_ in (('lf', '\n'), ('crlf', '\r\n'), ('cr', '\r')):
                    data = eol_.join(f['text'].split(eol_now)).encode('utf-8')
                    util.restore(world, {'f.rules': data})
                    res3 = in_proc(world, ctlp, lambda: load_file_struct(kind, os.path.join(world, 'f.rules')))
                    count['layout_checks'] += 1
                    log.append(['layout-file', kind, style, util.digest(res3)])
                    if res3.get('ok') != f['expected']:
                        violations.append({'invariant': 'LAY', 'signature': {'kind': kind, 'outcome': 'file-' + style},
                                           'witness': 'the %s file written with %s line endings does not load to its model: %s' % (kind, style.upper(), util.canon(res3)[:300]),
                                           'schedule': {'property': ID, 'case': dict(case, files=[dict(f, corruptions=[], torn=[])], commands=[])}})
                        break
                util.restore(world, {})
            if res.get('ok') != f['expected']:
                violations.append({'invariant': 'LAY', 'signature': {'kind': kind, 'outcome': 'error' if 'error' in res else 'different-structure'},
                                   'witness': 'uncorrupted %s rendering does not parse to its model: got %s' % (kind, util.canon(res)[:400]),
                                   'schedule': {'property': ID, 'case': dict(case, files=[dict(f, corruptions=[], torn=[])], commands=[])}})
            for c in f['corruptions']:
                count['loader_cases'] += 1
                sets['tuples'].add('%s|%s|%s|loader' % (kind, c['class'], c['position']))
                out = check_loader_case(kind, c['class'], c['position'], c['text'], set(c['allowed']), world, ctlp)
                log.append(['corrupt', kind, c['class'], c['position'], out[0] if out else 'rejected'])
                if out:
                    violations.append({'invariant': 'REJ', 'signature': {'kind': kind, 'class': c['class'], 'observer': 'loader', 'outcome': out[0]},
                                       'witness': out[1],
                                       'schedule': {'property': ID, 'case': dict(case, files=[dict(f, corruptions=[c], torn=[])], commands=[])}})
            for t in f['torn']:
                count['torn_cases'] += 1
                fn = (lambda x=t['text']: load_rules_text(x)) if kind == 'rules' else (lambda x=t['text']: load_views_text(x))
                res = in_proc(world, ctlp, fn)
                sets['tuples'].add('%s|torn-%s|%s|loader' % (kind, t['expect'][0], 'tail'))
                bad = None
                if t['expect'][0] == 'error':
                    if 'ok' in res:
                        bad = ('accepted', 'file cut after line %d (its last section is incomplete) was accepted' % t['k'])
                    elif res.get('line') != t['expect'][1]:
                        bad = ('wrong-line', 'file cut after line %d: error names line %s, the incomplete section starts at line %s: %s'
                               % (t['k'], res.get('line'), t['expect'][1], res.get('error', '')[:200]))
                else:
                    if res.get('ok') != t['expect'][1]:
                        bad = ('different-structure', 'file cut after line %d parses to %s, the surviving lines say %s'
                               % (t['k'], util.canon(res)[:300], util.canon(t['expect'][1])[:300]))
                log.append(['torn', kind, t['k'], bad[0] if bad else 'ok'])
                if bad:
                    violations.append({'invariant': 'TORN', 'signature': {'kind': kind, 'expect': t['expect'][0], 'outcome': bad[0]},
                                       'witness': bad[1],
                                       'schedule': {'property': ID, 'case': dict(case, files=[dict(f, corruptions=[], torn=[t])], commands=[])}})
        for cmd in case['commands']:
            root = os.path.join(scratch, 'b')
            util.restore(root, util.snap_from_json(cmd['world']))
            target = cmd['target']
            # what does the loader itself say about this file?
            van = (cmd.get('reads') or {}).get('__vanish__')
            absent = bool((cmd.get('reads') or {}).get('__absent__'))
            if van or absent:
                # the loader's own failure for a file that is not there
                direct = {'error': '[Errno 2] No such file or directory', 'type': 'FileNotFoundError'}
            else:
                direct = in_proc(root, ctlp, lambda: load_file_direct(cmd['kind'], os.path.join(root, target)), reads=cmd.get('reads'))
            if 'ok' in direct and cmd['class'] == 'utf-16':
                # the loader read the UTF-16 file: then it read what the file says (the same text saved as UTF-8 is the reference)
                wsnap = util.snap_from_json(cmd['world'])
                key = target if target in wsnap else util.resolve_path(util.links_of(wsnap), target)
                ref_path = os.path.join(root, os.path.dirname(target), 'as-utf8-' + os.path.basename(target))
                with open(ref_path, 'wb') as fh:
                    fh.write(wsnap[key][2:].decode('utf-16-le').encode('utf-8'))
                got = in_proc(root, ctlp, lambda: load_file_struct(cmd['kind'], os.path.join(root, target)))
                ref = in_proc(root, ctlp, lambda: load_file_struct(cmd['kind'], ref_path))
                os.unlink(ref_path)
                count['fired.utf-16'] = count.get('fired.utf-16', 0) + 1
                if 'ok' in ref and util.canon(got) != util.canon(ref):
                    violations.append({'invariant': 'REP', 'signature': {'kind': cmd['kind'], 'observer': 'loader', 'class': 'utf-16'},
                                       'witness': '%s saved as UTF-16 (with byte-order mark) is accepted by the loader but not read for what it says: %s ; '
                                                  'the same text as UTF-8: %s' % (target, util.canon(got)[:250], util.canon(ref)[:250]),
                                       'schedule': {'property': ID, 'case': dict(case, files=[], commands=[cmd])}})
                log.append(['cmd-utf16-accepted', util.digest(got)])
                continue
            if 'ok' in direct:
                if cmd['class'] in ('EACCES', 'EIO') and cmd['kind'] in ('rules', 'views'):
                    # the operating system refuses to hand out the file's content (for good: every attempt fails): whatever the
                    # loader returned, it is not what the file says - "a rules file that cannot be loaded is reported ... rather
                    # than treated as containing no rules" starts here
                    violations.append({'invariant': 'REP',
                                       'signature': {'kind': cmd['kind'], 'observer': 'loader', 'class': cmd['class']},
                                       'witness': 'every read of %s fails with %s, yet the loader returns normally (a %s without the file\'s content)'
                                                  % (target, cmd['class'], 'rule set' if cmd['kind'] == 'rules' else 'views configuration'),
                                       'schedule': {'property': ID, 'case': dict(case, files=[], commands=[cmd])}})
                    log.append(['cmd-loader-accepts-unreadable', cmd['class']])
                    continue
                count['command_skipped_loader_accepts'] = count.get('command_skipped_loader_accepts', 0) + 1
                log.append(['cmd-skip', cmd['class']])
                continue
            needle = direct['error'].replace(os.path.realpath(root), '').strip()
            # what must show up: the parse message ("Line N: ..."), the OS error text, or the codec complaint
            import re as _re
            m = _re.match(r'\[Errno \d+\] ([^:]+)', needle)
            if m:
                needles = [m.group(1).strip()]
            elif 'codec can' in needle:
                needles = ["codec can't decode"]
            else:
                needles = [needle]
            observers = [['up', cmd['cfg'], '--summary'], ['diag', cmd['cfg']]]
            if cmd['kind'] in ('rules', 'csv'):
                # the statement does not limit the duty to report to one command: the other commands that classify load the same file
                observers += [['explain', cmd['cfg']], ['discover', cmd['cfg'], '--format', 'json']]
            for argv in observers:
                if van:
                    util.restore(root, util.snap_from_json(cmd['world']))
                    r = proc.run_cli(root, argv, {'vanish': van, 'net': 'down'}, ctl_parent=ctlp)
                    if not any(e.get('k') == 'vanish' for e in r.events):
                        count['command_not_judged'] = count.get('command_not_judged', 0) + 1
                        continue        # the command never looked at the file that often: nothing vanished
                elif absent:
                    r = proc.run_cli(root, argv, {'net': 'down'}, cwd=cmd.get('cwd') or '.', ctl_parent=ctlp)
                else:
                    r = proc.run_cli(root, argv, {'reads': cmd.get('reads') or {}, 'net': 'down'}, ctl_parent=ctlp)
                count['command_runs'] += 1
                obs = argv[0]
                if absent:
                    count['fired.absent-with-decoy'] = count.get('fired.absent-with-decoy', 0) + 1
                elif van:
                    count['fired.vanish'] = count.get('fired.vanish', 0) + 1
                elif cmd.get('reads'):
                    count['fired.read-fault'] = count.get('fired.read-fault', 0) + 1
                else:
                    count['fired.corrupt-at-rest'] = count.get('fired.corrupt-at-rest', 0) + 1
                sets['tuples'].add('%s|%s|%s|%s' % (cmd['kind'], cmd['class'], 'cmd', obs))
                text = r.out + '\n' + r.err
                reported = any(n in text for n in needles)
                gone = bool(van) or absent   # judged alike: "not found" in the command's own words will do
                if gone and obs == 'diag':
                    reported = True      # diag describes what it finds on disk; "not found" wording is its own
                if gone and ('not found' in text.lower() or 'no such file' in text.lower() or 'missing' in text.lower()):
                    reported = True
                if absent and 'Decoy' in text:
                    reported = False     # ... unless it went on with a file from somewhere else
                if cmd['kind'] == 'views' and obs == 'up' and r.exit != 0:
                    # the run stopped for another reason before it got to show its warnings: not judged
                    count['command_not_judged'] = count.get('command_not_judged', 0) + 1
                    reported = True
                log.append(['cmd', obs, cmd['kind'], cmd['class'], r.exit, reported, util.sha(util.norm_text(text, root))])
                if not reported:
                    rules_line = [ln for ln in text.split('\n') if 'categorization rules' in ln or 'No merchant rules' in ln]
                    violations.append({'invariant': 'REP',
                                       'signature': {'kind': cmd['kind'], 'observer': obs, 'class': 'parse-error' if not cmd.get('reads') and cmd['class'] != 'invalid-utf8' else cmd['class']},
                                       'witness': '`tally %s` on a budget whose %s cannot be loaded (%s: %s) exits %d without reporting it%s'
                                                  % (' '.join(argv), target, cmd['class'], needles[0][:120], r.exit,
                                                     ('; it says: ' + rules_line[0].strip()) if rules_line else ''),
                                       'schedule': {'property': ID, 'case': dict(case, files=[], commands=[cmd])}})
                # --- the same with nobody reading stderr any more (`2>&1 | head`, a pager that was quit): the command cannot say
                # what it has to say there.  It may stop over that, or say it on stdout; what it may not do is carry on to a
                # successful end as if the file had loaded.
                import zlib as _zlib
                if not van and not absent and obs != 'diag' and (cmd['kind'] == 'views' or _zlib.crc32(needles[0].encode()) % 3 == 0):
                    r2 = proc.run_cli(root, argv, {'reads': cmd.get('reads') or {}, 'net': 'down',
                                                   'stdout_fault': {'after_effect': -1, 'stream': 'stderr'}}, ctl_parent=ctlp)
                    count['command_runs'] += 1
                    count['fired.stderr-gone'] = count.get('fired.stderr-gone', 0) + 1
                    said = any(n in r2.out for n in needles)
                    log.append(['cmd-stderr-gone', obs, cmd['kind'], cmd['class'], r2.exit, said])
                    if r2.exit == 0 and not said and reported and r.exit == 0:
                        violations.append({'invariant': 'REP',
                                           'signature': {'kind': cmd['kind'], 'observer': obs, 'class': 'stderr-gone'},
                                           'witness': '`tally %s` on a budget whose %s cannot be loaded (%s: %s), with nobody reading stderr: exits 0 '
                                                      'without having said it anywhere' % (' '.join(argv), target, cmd['class'], needles[0][:120]),
                                           'schedule': {'property': ID, 'case': dict(case, files=[], commands=[cmd])}})
                    elif r2.exit != 0:
                        count['died_of_broken_stderr'] = count.get('died_of_broken_stderr', 0) + 1
    finally:
        shutil.rmtree(scratch, ignore_errors=True)
    dig = util.digest(log)
    for v in violations:
        v['digest'] = None      # per-violation digest is that of the reduced case, filled by replay
    return {'violations': violations, 'count': count, 'sets': {k: sorted(v) for k, v in sets.items()}, 'samples': [], 'digest': dig}


def build_case(rng, tier):
    case = {'files': [], 'commands': []}
    # ---- a merchants.rules rendering
    model = rf.gen_rules_model(rng, rng.randint(1, 5), fields=('kind',), sources=('Card',), simple=False)
    # make sure let/field/priority/variable/transform occur often enough to be corrupted
    if rng.random() < 0.5 and not model['variables']:
        model['variables'].append(['is_big', 'amount > 100'])
    if rng.random() < 0.5 and not model['transforms']:
        model['transforms'].append(['field.description', 'strip_prefix(field.description, "SQ *")'])
    for r in model['rules']:
        if rng.random() < 0.3 and not r['lets']:
            r['lets'].append(['v%d' % rng.randint(1, 9), 'amount * 2'])
        if rng.random() < 0.3 and not r['fields']:
            r['fields'].append(['note', 'uppercase(description)'])
        if rng.random() < 0.3 and r['priority'] is None:
            r['priority'] = rng.choice([1, 75])
    lay = rf.gen_rules_layout(rng)
    text, linemap = rf.render_rules(model, lay, rng)
    eol = '\r\n' if lay['crlf'] else '\n'
    cors = []
    for cls, position, new, allowed in corruptions_rules(rng, model, text, linemap, eol):
        cors.append({'class': cls, 'position': position, 'text': new, 'allowed': sorted(allowed)})
    nlines = len(text.split(eol))
    torn = []
    ks = list(range(1, nlines))
    rng.shuffle(ks)
    for k in sorted(ks[:8 if tier == 'quick' else 16]):
        t = eol.join(text.split(eol)[:k]) + (eol if rng.random() < 0.7 else '')
        torn.append({'k': k, 'text': t, 'expect': list(truncated_rules(model, linemap, k))})
    case['files'].append({'kind': 'rules', 'text': text, 'expected': rf.expected_engine(model), 'corruptions': cors, 'torn': torn})
    # ---- a views.rules rendering
    vm = rf.gen_views_model(rng, rng.randint(1, 4), simple=False)
    vlay = rf.gen_rules_layout(rng)
    vlay['hdr_indent'] = 0.0
    vlay['keycase'] = 0.0
    vtext, vmap = rf.render_views(vm, vlay, rng)
    veol = '\r\n' if vlay['crlf'] else '\n'
    vcors = [{'class': c, 'position': p, 'text': t, 'allowed': sorted(a)} for c, p, t, a in corruptions_views(rng, vm, vtext, vmap, veol)]
    vn = len(vtext.split(veol))
    vtorn = []
    ks = list(range(1, vn))
    rng.shuffle(ks)
    for k in sorted(ks[:6 if tier == 'quick' else 12]):
        t = veol.join(vtext.split(veol)[:k]) + (veol if rng.random() < 0.7 else '')
        vtorn.append({'k': k, 'text': t, 'expect': list(truncated_views(vm, vmap, k))})
    case['files'].append({'kind': 'views', 'text': vtext, 'expected': rf.expected_views(vm), 'corruptions': vcors, 'torn': vtorn})
    # ---- command level: a budget carrying one damaged file
    for _ in range(2 if tier == 'quick' else 3):
        b = bm.gen_budget(rng, 'mixed')
        b['rules_kind'] = 'rules'
        if b['rules_model'] is None:
            b['rules_model'] = rf.gen_rules_model(rng, rng.randint(1, 4), simple=True)
        if b['views_model'] is None:
            b['views_model'] = rf.gen_views_model(rng, 2, simple=True)
        b['csv_rules'] = []
        if not any(s['rows'] for s in b['sources'] if not s['supplemental']):
            from ..models import statement as st
            s0 = b['sources'][0]
            s0['rows'] = st.gen_rows(rng, 2, first_id=500)
            st.fill_caps(rng, s0['layout'], s0['rows'])
        kind = rng.choice(['rules', 'rules', 'views', 'csv'])
        if kind == 'csv':
            # a legacy CSV rule file that cannot be read is a rules file that cannot be loaded, too
            b['rules_kind'] = 'csv'
            b['rules_model'] = None
            b['csv_rules'] = rf.gen_csv_rules(rng, rng.randint(1, 4))
        files = bm.render_budget(b, rng)
        base = b['base']
        target = base + {'rules': 'config/merchants.rules', 'views': 'config/views.rules', 'csv': 'config/merchant_categories.csv'}[kind]
        r = rng.random()
        if kind == 'csv':
            r = 0.55 + 0.45 * r          # only read faults / undecodable bytes: the CSV reader has no syntax to corrupt
        reads = None
        snap = {p: c.encode('utf-8') for p, c in files.items()}
        if r < 0.55:
            pool = cors if kind == 'rules' else vcors
            c = rng.choice(pool)
            cls = c['class']
            snap[target] = c['text'].encode('utf-8')
        elif r < 0.62 and kind in ('rules', 'views'):
            # saved as "Unicode" by a Windows editor: UTF-16 with a byte-order mark.  Either the loader cannot read it - then that is
            # reported - or it reads it for what it says
            cls = 'utf-16'
            snap[target] = b'\xff\xfe' + snap[target].decode('utf-8').encode('utf-16-le')
        elif r < 0.7:
            cls = 'invalid-utf8'
            data = snap[target]
            cut = rng.randint(0, max(0, len(data) - 1))
            snap[target] = data[:cut] + b'\xff\xfe' + data[cut:]
        elif r < 0.78:
            cls = 'EACCES'
            reads = {target: {'kind': 'oserror', 'errno': 'EACCES'}}
        elif r < 0.88 and kind == 'rules':
            # (.rules only: the legacy CSV loader's documented contract is "no file, no user rules", and it looks before it opens)
            # a sync client / editor removes the file after the command has first seen it
            cls = 'vanish'
            reads = {'__vanish__': {target: rng.choice([2, 2, 3, 4])}}
        else:
            cls = 'EIO'
            reads = {target: {'kind': 'eio', 'after': rng.randint(0, 20)}}
        cwd, cfg_arg = '.', base + 'config'
        import re as _re
        key = {'rules': 'merchants_file', 'views': 'views_file'}.get(kind)
        named = _re.search(r'(?m)^%s:[ \t]*["\']?([^"\'\s#]+)' % key, files[base + 'config/settings.yaml']) if key else None
        if named and cls in ('EIO', 'EACCES') and rng.random() < 0.5:
            # the configured file is simply not there - and the command is started from another directory in which a file of
            # the same relative name lies (last year's budget): the budget's rules are the file settings.yaml names, or an error
            cls, reads = 'absent', {'__absent__': True}
            del snap[target]
            snap['elsewhere/' + named.group(1)] = (b'[Decoy]\nmatch: amount > 0 or amount < 0\ncategory: Decoy\nsubcategory: Wrong\n' if kind == 'rules'
                                                   else b'[Decoy]\nfilter: total > 0 or total < 0\n')
            cwd, cfg_arg = 'elsewhere', os.path.relpath(base + 'config', 'elsewhere')
        if cls not in ('absent', 'vanish') and kind in ('rules', 'views') and rng.random() < 0.2:
            # the file is reached through a symbolic link whose target carries another name (a shared rules file):
            # it is still the budget's rules / views file, and what is wrong with it is reported alike
            store = base + 'shared/' + ('household-rules.txt' if kind == 'rules' else 'views.txt')
            snap[store] = snap.pop(target)
            snap[target + '@'] = ('../shared/' + os.path.basename(store)).encode()
            if reads:
                reads = dict(reads)
                reads[store] = reads[target]
        case['commands'].append({'kind': kind, 'class': cls, 'world': util.snap_to_json(snap), 'target': target,
                                 'cfg': cfg_arg, 'cwd': cwd, 'reads': reads})
    return case


def run_one(seed, i, tier, scratch):
    rng = util.rng_for(seed, ID, i)
    case = build_case(rng, tier)
    res = execute(case, scratch)
    # fill digests by re-executing each violation's reduced case lazily: use the digest of the reduced case itself
    for v in res['violations']:
        v['schedule']['seed'] = seed
        v['schedule']['run'] = i
        v['digest'] = util.digest(v['schedule']['case'])
    if i < 2:
        f = case['files'][0]
        res['samples'] = [{'seed': seed, 'run': i, 'rules_file': f['text'][:600],
                           'corruption_classes': sorted({c['class'] for c in f['corruptions']}),
                           'one_corruption': (f['corruptions'][0]['class'], f['corruptions'][0]['text'][:300]) if f['corruptions'] else None,
                           'commands': [(c['kind'], c['class'], c['target']) for c in case['commands']]}]
    return res


def replay(schedule, scratch):
    res = execute(schedule['case'], scratch)
    for v in res['violations']:
        v['schedule'] = dict(schedule, case=v['schedule']['case'])
        v['digest'] = util.digest(v['schedule']['case'])
    return {'violations': res['violations'], 'digest': res['digest']}


def coverage(count, sets, samples, tier):
    return {
        'evaluations': count.get('loader_cases', 0) + count.get('torn_cases', 0) + count.get('command_runs', 0) + count.get('layout_checks', 0),
        'distinct_nontrivial': len(sets.get('tuples', ())),
        'rule': RULE,
        'samples': samples,
        'files_rendered': count.get('files', 0),
        'loader_corruption_cases': count.get('loader_cases', 0),
        'torn_tail_cases': count.get('torn_cases', 0),
        'layout_checks': count.get('layout_checks', 0),
        'command_runs': count.get('command_runs', 0),
        'command_cases_skipped_because_loader_accepts': count.get('command_skipped_loader_accepts', 0),
        'faults_fired': {k[6:]: v for k, v in count.items() if k.startswith('fired.')},
        'tuples': sorted(sets.get('tuples', ())),
    }
