"""C20 - commands never alter or overwrite the user's statements, rules or settings.

exploration: seeded histories of real tally commands over seeded budgets; after every simulated
process a frame condition over complete before/after snapshots and the audited effect log.
See DESIGN.md 5.2.
"""
import os
import re

from .. import proc, util
from ..models import budget as bm
from ..driver import shrink_world_candidates

ID = 'C20'
LEVEL = 'exploration'
COMPONENTS = {
    'real': ['tally.cli.main() for up / run / explain / discover / diag / inspect / init / up --migrate',
             'all of /repo/src/tally reached from there', 'PyYAML', 'kernel tmpfs beneath the interposition layer'],
    'stub': ['user at the TTY (scripted: n, garbage, EOF, Ctrl-C; y only where migration is requested)',
             'GitHub API peer (down)', 'clock (pinned)', 'PATH (empty)'],
    'not_executed': ['spending_report.js', 'perform_update', 'commands/workflow.py (spawns subprocesses)'],
}
ASSUMPTIONS = [
    'the output location is dirname(config_dir)/<output_dir>/<html_filename> from the settings file in use, or the -o path '
    '(plus spending_report.css/js and spending_data.js beside it with --no-embedded-html)',
    'generated settings never point output_dir / -o at a user file',
    'init may turn merchant_categories.csv into a byte-identical .bak only when the CSV has rules and no merchants.rules existed',
    'what an explicitly requested migration does to a pre-existing merchants.rules/.bak is judged by C15.I1, not here',
]
RULE = ('history = 3-8 commands drawn from up (html/json/markdown/summary, -q, -o, --no-embedded-html, --category, --only, '
        '--tags, -s alt), run, explain (8 variants), discover (3 formats), diag (2), inspect, init (3 forms), up --migrate, '
        'up on a declining TTY; config located by argument, cwd or TALLY_CONFIG; old and new layout.  distinct_nontrivial '
        'counts distinct (command variant, world-shape class, wrote-anything) triples; a world-shape class is (layout, '
        'rules kind on disk, views?, legacy CSV present?).')


AWKWARD_CSV_ROWS = ['"SAY ""HI""",Quoted,Misc,Other', 'NOCAT,No Category,,', 'EMPTYM,,Misc,Other', 'A[b]C,Brackets,Misc,Other',
                    '"COMMA, INC",Comma,Misc,Other', 'TRAIL\\,Backslash,Misc,Other']


def runs(tier):
    return 160 if tier == 'quick' else 12000


# ----------------------------------------------------------------------------- world + history generation

_VOCAB = [None]


def source_vocabulary():
    """File names and header lines that occur as string literals in the code under test (read once per check run): a budget
    folder may hold a user's file of such a name, beginning with such a line - written by an older release and edited since, or
    simply named alike.  It is the user's file like any other."""
    if _VOCAB[0] is None:
        import glob
        import re as _re
        from .. import REPO
        names, heads = set(), set()
        import ast as _ast
        for f in sorted(glob.glob(os.path.join(REPO, 'src', 'tally', '**', '*.py'), recursive=True)):
            try:
                tree = _ast.parse(open(f, 'r', encoding='utf-8', errors='replace').read())
            except (OSError, SyntaxError, ValueError):
                continue
            for node in _ast.walk(tree):
                if isinstance(node, _ast.Constant) and isinstance(node.value, str) and node.value:
                    v = node.value
                    if _re.fullmatch(r'[A-Za-z_.][A-Za-z0-9_.-]{1,30}\.(?:md|txt|log|json|toml|ini|cfg|lock|bak|yaml|yml)', v):
                        names.add(v)
                    first = v.lstrip('\ufeff').split('\n', 1)[0].rstrip()
                    if _re.fullmatch(r'#{1,2} \S.{3,70}', first):
                        heads.add(first)       # the first line of a text the program writes (a template, a generated header)
        names.update(['AGENTS.md', 'CLAUDE.md', 'README.md', 'NOTES.txt', 'tally.log'])
        _VOCAB[0] = (sorted(names), sorted(heads))
    return _VOCAB[0]


def gen_schedule(rng, i, tier):
    b = bm.gen_budget(rng, 'mixed')
    files = bm.render_budget(b, rng)
    base = b['base']
    # sometimes the legacy CSV lives beside a merchants.rules / has no rules at all
    csvp = base + 'config/merchant_categories.csv'
    if b['rules_kind'] == 'rules' and rng.random() < 0.2:
        files[csvp] = 'Pattern,Merchant,Category,Subcategory\nOLDCSV,Old Csv,Misc,Old\n'
    if b['rules_kind'] == 'none' and rng.random() < 0.3:
        files[csvp] = rng.choice(['Pattern,Merchant,Category,Subcategory\n', '# no rules yet\nPattern,Merchant,Category,Subcategory\n'])
    if b['rules_kind'] == 'csv' and rng.random() < 0.2:
        files[base + 'config/merchant_categories.csv.bak'] = 'Pattern,Merchant,Category,Subcategory\nOLDBAK,Old,Misc,Old\n'
        if rng.random() < 0.5 and len(files.get(csvp, '')) > 45:
            # an older backup of exactly the same size (and, on the simulated disk, the same time stamp) but other content
            t = files[csvp]
            files[base + 'config/merchant_categories.csv.bak'] = t[:40] + ('X' if t[40] != 'X' else 'Y') + t[41:]
    if b['rules_kind'] == 'csv' and rng.random() < 0.25:
        # legal CSV rows that convert to something the .rules loader may not accept (quotes in the pattern, empty category,
        # empty merchant, a bracket that is no modifier, a trailing backslash): the migration then fails half-way or yields
        # an unloadable file
        extra = rng.choice(AWKWARD_CSV_ROWS)
        files[csvp] = files[csvp].rstrip('\n') + '\n' + extra + '\n'
    if rng.random() < 0.15 and base + 'config/views.rules' not in files:
        # a views file that settings does not mention
        files[base + 'config/views.rules'] = '[Everything]\nfilter: total > 0\n'
    # every config file independently present or not: files that settings does not (yet) reference
    rulesp = base + 'config/merchants.rules'
    if rulesp not in files and rng.random() < 0.3:
        files[rulesp] = rng.choice(['# starter - no rules yet\n',
                                    '[Mine]\nmatch: contains("MINE")\ncategory: Personal\nsubcategory: Own\n',
                                    '[Netflix]\nmatch: contains("NETFLIX")\ncategory: Subscriptions\nsubcategory: Streaming\ntags: fun\n'])
    if rng.random() < (0.35 if rulesp in files and b['rules_kind'] == 'csv' else 0.1):
        files[base + 'config/merchants.rules.bak'] = '# an older copy of my rules\n[Old]\nmatch: contains("OLD")\ncategory: Old\n'
    if rng.random() < 0.3 and base + '.gitignore' not in files:
        # the folder is (part of) the user's git repository
        files[base + '.gitignore'] = rng.choice(['node_modules/\n*.log\n', '*.pyc\r\n.env', '# mine\nsecret.txt\n', 'data/\n'])
    if rng.random() < 0.1:
        files[base + 'config/.tally-schema'] = '1\n'
    # files edited on another platform: CRLF line endings, trailing blanks, missing final newline
    for r_ in sorted(files):
        if r_.endswith(('.yaml', '.rules', '.csv')) and rng.random() < 0.15:
            files[r_] = files[r_].replace('\r\n', '\n').replace('\n', '\r\n')
    # deliberately empty files are files: an empty rules / views / .gitignore file exists and must be kept
    for r_ in (base + 'config/merchants.rules', base + 'config/views.rules', base + '.gitignore', base + 'config/merchant_categories.csv'):
        if rng.random() < 0.08 and (r_ in files or r_.endswith('.gitignore')):
            files[r_] = ''
    sp_ = base + 'config/settings.yaml'
    if rng.random() < 0.08 or i % 10 == 8:
        # settings.yaml names a rules / views file that is not there (a path written relative to the config folder, a file not yet
        # copied over) while a file of the standard name sits in config/: that file is the user's all the same
        for key_, std_ in (('merchants_file', 'merchants.rules'), ('views_file', 'views.rules')):
            if base + 'config/' + std_ in files and rng.random() < 0.8:
                named = rng.choice([std_, 'rules/' + std_, 'config/my-' + std_, '../' + std_])
                line_ = '%s: config/%s' % (key_, std_)
                eol_ = '\r\n' if '\r\n' in files[sp_] else '\n'
                if line_ in files[sp_]:
                    files[sp_] = files[sp_].replace(line_, '%s: %s' % (key_, named))
                elif key_ + ':' not in files[sp_]:
                    files[sp_] = files[sp_].rstrip('\r\n') + eol_ + '%s: %s' % (key_, named) + eol_
    if rng.random() < 0.1:
        files[sp_] = files[sp_].rstrip('\n') + rng.choice(['', '\n\n\n', '  \n', '\n# end'])
    if rng.random() < 0.15 or i % 10 == 1:
        names_, heads_ = source_vocabulary()
        names_ = [n_ for n_ in names_ if not n_.startswith('settings') and n_ not in ('merchants.rules', 'views.rules')]
        if names_ and heads_:
            pairs_ = []
            for n_ in names_:
                stem_ = n_.split('.')[0].lower()
                for h_ in heads_:
                    # a name and a header line that belong together by their words (AGENTS.md / "# ... Agent ...") come first
                    if len(stem_) >= 4 and any(w_.lower()[:4] == stem_[:4] for w_ in h_.replace('-', ' ').split() if len(w_) >= 4):
                        pairs_.append((n_, h_))
            pairs_ = pairs_[:4] + [(rng.choice(names_), rng.choice(heads_))]
            for n_, h_ in pairs_:
                for where_ in (base, base + 'config/'):
                    if where_ + n_ not in files and rng.random() < 0.8:
                        files[where_ + n_] = h_ + rng.choice(['\n', '\r\n', '\n\n']) + 'my own notes below this line - keep\n'
    snap = {r: c.encode('utf-8') for r, c in files.items()}
    snap['elsewhere/'] = None
    if rng.random() < 0.05 or i % 10 == 9:
        # a config file that is a symbolic link to something not there at the moment (an unmounted share, a sync client that has not
        # delivered yet): the link is the user's, whatever `exists()` says about it
        for nm_ in rng.sample(['config/views.rules', 'config/merchants.rules', '.gitignore'], 2):
            if base + nm_ not in snap and base + nm_ + '@' not in snap:
                snap[base + nm_ + '@'] = ('../shared/not-mounted-' + nm_.split('/')[-1]).encode() if '/' in nm_ else b'shared/not-mounted-gitignore'
                break
    if rng.random() < 0.12 or i % 10 == 6:
        # a statement as another program exported it: UTF-16 with a byte-order mark ("Unicode text"), or Windows-1252 with one accented
        # letter.  Whatever the commands make of it, they do not write next to it
        dfs = sorted(base + s_['file'] for s_ in b['sources'] if base + s_['file'] in snap)
        if dfs:
            k_ = rng.choice(dfs)
            t_ = snap[k_].decode('utf-8')
            if rng.random() < 0.5:
                snap[k_] = b'\xff\xfe' + t_.encode('utf-16-le')
            else:
                t2 = t_.replace('E', '\u00c9', 1) if 'E' in t_ else t_ + 'CAF\u00c9\n'
                try:
                    snap[k_] = t2.encode('cp1252')
                except UnicodeEncodeError:
                    snap[k_] = b'\xff\xfe' + t_.encode('utf-16-le')
    cfg = base + 'config'
    data_files = [base + s['file'] for s in b['sources']]
    cats = sorted({it['category'] for it in b['csv_rules']} |
                  {r['category'] for r in (b['rules_model'] or {'rules': []})['rules'] if r['category']}) or ['Food']
    views = [v['name'] for v in (b['views_model'] or {'views': []})['views']]
    words = sorted({rw['desc'].split()[0] for s in b['sources'] for rw in s['rows']}) or ['NETFLIX']
    steps = []
    for _ in range(rng.randint(3, 8)):
        steps.append(gen_step(rng, b, cfg, data_files, cats, views, words, tier))
    if rng.random() < 0.2 or i % 10 == 2:
        # the folder was initialised by tally before, the user has since written into the files it generated, and runs init again
        # (to pick up new starter files): everything generated earlier is now the user's
        init_step = next((st_ for st_ in steps if st_['kind'] == 'init'), None)
        if init_step is None:
            init_step = {'kind': 'init', 'variant': 'init:dot', 'argv': ['init', '.'], 'cwd': '.', 'env': {}, 'tty': {'stdin': False, 'stdout': False, 'answers': []}, 'target': '.'}
        steps = [s_ for s_ in steps[:3]] + [dict(init_step), {'kind': 'edit-generated', 'variant': 'edit-generated', 'argv': [], 'cwd': '.', 'env': {}, 'tty': {}},
                                            dict(init_step)] + rng.sample(steps, min(2, len(steps)))
    alt_key = base + 'config/settings-2024.yaml'
    if i % 10 == 3 and b['rules_kind'] == 'csv':
        # one budget, one settings file per year, all on the same legacy CSV: a requested migration under one of them, then ordinary
        # commands under the other (stratified over the run index)
        snap[alt_key] = files[base + 'config/settings.yaml'].replace('year: %d' % b['year'], 'year: 2024', 1).encode('utf-8')
        first_alt = rng.random() < 0.5
        notty = {'stdin': False, 'stdout': False, 'answers': []}

        def up(alt, extra, kind='up'):
            return {'kind': kind, 'variant': kind + (':alt' if alt else ':html'), 'argv': ['up', cfg] + (['-s', 'settings-2024.yaml'] if alt else []) + extra,
                    'cwd': '.', 'env': {}, 'tty': notty, 'out_o': None, 'noembed': False, 'alt': alt}
        steps = [up(first_alt, ['--migrate'], 'migrate')]
        for _ in range(rng.randint(2, 4)):
            alt = (not first_alt) if rng.random() < 0.7 else first_alt
            steps.append(up(alt, rng.choice([[], ['--format', 'json'], ['--summary'], ['-q']])))
    return {'world': util.snap_to_json(snap), 'steps': steps,
            'model': {'layout': b['layout'], 'cfg': cfg, 'output_dir': b.get('output_dir') or 'output',
                      'html_filename': b.get('html_filename') or 'spending_summary.html'}}


def gen_step(rng, b, cfg, data_files, cats, views, words, tier):
    base = b['base']
    loc = rng.choice(['arg', 'arg', 'cwd', 'env'])
    cwd = '.'
    env = {}
    cfg_arg = [cfg]
    if loc == 'arg':
        # the same directory, spelled the ways a shell user spells it (tab completion adds the slash; from inside it is ".")
        sp = rng.choice(['plain', 'plain', 'plain', 'slash', 'dotslash', 'slashdot', 'abs', 'abs-slash', 'inside', 'up-from-data'])
        if sp == 'slash':
            cfg_arg = [cfg + '/']
        elif sp == 'dotslash':
            cfg_arg = ['./' + cfg]
        elif sp == 'slashdot':
            cfg_arg = [cfg + '/.']
        elif sp == 'abs':
            cfg_arg = ['<ROOT>/' + cfg]
        elif sp == 'abs-slash':
            cfg_arg = ['<ROOT>/' + cfg + '//']
        elif sp == 'inside':
            cwd = cfg
            cfg_arg = ['.']
        elif sp == 'up-from-data':
            cwd = base + 'data'
            cfg_arg = ['../config']
    if loc == 'cwd':
        cfg_arg = []
    elif loc == 'env':
        cfg_arg = []
        cwd = 'elsewhere'
        env = {'TALLY_CONFIG': '<ROOT>/' + cfg}
    tty = {'stdin': False, 'stdout': False, 'answers': []}
    kind = rng.choice(['up', 'up', 'up', 'explain', 'explain', 'discover', 'diag', 'inspect', 'init', 'migrate', 'decline', 'run'])
    out_o = None
    variant = kind
    if kind in ('up', 'run', 'decline', 'migrate'):
        opts = []
        v = rng.choice(['html', 'html', 'json', 'markdown', 'summary', 'summaryflag', 'quiet', 'outfile', 'noembed',
                        'category', 'only', 'tags', 'alt', 'groupby'])
        if kind == 'run' and v == 'groupby':
            v = 'html'
        if v == 'json':
            opts = ['--format', 'json'] + rng.choice([[], ['-v'], ['-vv']])
        elif v == 'markdown':
            opts = ['--format', 'markdown']
        elif v == 'summary':
            opts = ['--format', 'summary']
        elif v == 'summaryflag':
            opts = ['--summary']
        elif v == 'quiet':
            opts = ['-q']
        elif v == 'outfile':
            out_o = 'r.html' if cwd == 'elsewhere' else rng.choice(['myreport.html', 'elsewhere/r.html'])
            opts = ['-o', out_o]
        elif v == 'noembed':
            out_o = None
            opts = ['--no-embedded-html']
            if rng.random() < 0.5:
                out_o = 'r2.html' if cwd == 'elsewhere' else 'elsewhere/r2.html'
                opts += ['-o', out_o]
        elif v == 'category':
            opts = ['--category', rng.choice(cats)]
        elif v == 'only':
            opts = ['--only', (rng.choice(views) if views and rng.random() < 0.7 else 'nosuchview')]
        elif v == 'tags':
            opts = ['--tags', 'business']
        elif v == 'alt':
            opts = ['-s', 'settings-2024.yaml']
        elif v == 'groupby':
            opts = ['--group-by', 'subcategory', '--summary']
        cmd = 'run' if kind == 'run' else 'up'
        argv = [cmd] + cfg_arg + opts
        if kind == 'migrate':
            if rng.random() < 0.7:
                argv.append('--migrate')
            else:
                tty = {'stdin': True, 'stdout': True, 'answers': ['y']}
                if rng.random() < 0.5:
                    # while tally waits at the prompt the user saves a rules file of their own (or a sync client delivers one), then says yes
                    mine = rng.choice(['# saved while tally was asking\n[Mine]\nmatch: contains("MINE")\ncategory: Personal\nsubcategory: Own\n',
                                       '[Late]\nmatch: contains("LATE")\ncategory: Misc\nsubcategory: Late\ntags: late\n'])
                    where = rng.choice(['/merchants.rules', '/merchants.rules', '/merchant_categories.csv.bak', '/merchants.rules.bak'])
                    tty['answers'] = [{'answer': 'y', 'actor': {'write': {cfg + where: mine}}}]
        elif kind == 'decline':
            tty = {'stdin': True, 'stdout': True,
                   'answers': rng.choice([['n'], ['N'], ['no'], ['maybe'], [''], ['<EOF>'], ['<KBI>'], ['yes'], []])}
        variant = '%s:%s' % (kind, v)
        if out_o and cwd != '.':
            # -o is relative to cwd; keep it inside the world and away from user files
            out_o_rel = os.path.normpath(os.path.join(cwd, out_o))
        else:
            out_o_rel = out_o
        return {'kind': kind, 'variant': variant, 'argv': argv, 'cwd': cwd, 'env': env, 'tty': tty,
                'out_o': out_o_rel, 'noembed': v == 'noembed', 'alt': v == 'alt'}
    if kind == 'explain':
        v = rng.choice(['none', 'merchant', 'desc', 'category', 'tags', 'view', 'month', 'json', 'markdown', 'verbose', 'amount'])
        pos = []
        opts = []
        if v == 'merchant':
            pos = [rng.choice(words).title()]
        elif v == 'desc':
            pos = [rng.choice(words) + ' STORE']
        elif v == 'category':
            opts = ['--category', rng.choice(cats)]
        elif v == 'tags':
            opts = ['--tags', 'business,recurring']
        elif v == 'view':
            opts = ['--view', rng.choice(views) if views else 'bills']
        elif v == 'month':
            opts = ['--month', rng.choice(['2025-01', 'Dec', '3'])]
        elif v == 'json':
            opts = ['--format', 'json']
        elif v == 'markdown':
            opts = ['--format', 'markdown']
        elif v == 'verbose':
            opts = ['-vv']
        elif v == 'amount':
            pos = [rng.choice(words)]
            opts = ['--amount', '150']
        argv = ['explain'] + pos + cfg_arg + opts
        return {'kind': kind, 'variant': 'explain:' + v, 'argv': argv, 'cwd': cwd, 'env': env, 'tty': tty}
    if kind == 'discover':
        v = rng.choice(['text', 'csv', 'json'])
        argv = ['discover'] + cfg_arg + ['--format', v] + rng.choice([[], ['--limit', '0'], ['-n', '3']])
        return {'kind': kind, 'variant': 'discover:' + v, 'argv': argv, 'cwd': cwd, 'env': env, 'tty': tty}
    if kind == 'diag':
        v = rng.choice(['text', 'json'])
        argv = ['diag'] + cfg_arg + ['--format', v]
        return {'kind': kind, 'variant': 'diag:' + v, 'argv': argv, 'cwd': cwd, 'env': env, 'tty': tty}
    if kind == 'inspect':
        f = rng.choice(data_files + [cfg + '/settings.yaml', 'nosuchfile.csv'])
        argv = ['inspect', f] + rng.choice([[], ['-n', '2']])
        return {'kind': kind, 'variant': 'inspect', 'argv': argv, 'cwd': '.', 'env': {}, 'tty': tty}
    # init
    v = rng.choice(['default', 'dot', 'dir', 'base', 'fresh'])
    if v == 'default':
        argv, icwd, target = ['init'], '.', None
    elif v == 'dot':
        argv, icwd, target = ['init', '.'], '.', '.'
    elif v == 'dir':
        # initialise the budget directory itself, from outside or inside
        if base:
            argv, icwd, target = ['init', 'tally'], '.', 'tally'
        else:
            argv, icwd, target = ['init', '.'], '.', '.'
    elif v == 'base':
        argv, icwd, target = ['init', '..'], 'elsewhere', '.'
    else:
        argv, icwd, target = ['init', 'newbudget'], '.', 'newbudget'
    return {'kind': 'init', 'variant': 'init:' + v, 'argv': argv, 'cwd': icwd, 'env': {}, 'tty': tty, 'target': target}


# ----------------------------------------------------------------------------- oracle

def classify_path(rel):
    bn = os.path.basename(rel.rstrip('/'))
    if rel.endswith('/'):
        return 'dir'
    if bn.startswith('settings') and bn.endswith('.yaml'):
        return 'settings'
    if bn.startswith('merchant_categories.csv'):
        return 'csv-rules'
    if bn.startswith('merchants.rules'):
        return 'rules'
    if bn.startswith('views.rules'):
        return 'views'
    if '/data/' in '/' + rel and bn.endswith('.csv'):
        return 'statement'
    if 'output' in rel.split('/')[:-1]:
        return 'report'
    return 'bystander'


def csv_has_rules(data):
    try:
        text = data.decode('utf-8')
    except UnicodeDecodeError:
        return False
    for line in text.split('\n'):
        line = line.strip()
        if line and not line.startswith('#') and not line.startswith('Pattern,'):
            return True
    return False


def settings_in_use(pre, cfg, step):
    name = 'settings-2024.yaml' if step.get('alt') else 'settings.yaml'
    data = pre.get(cfg + '/' + name)
    out_dir, html = 'output', 'spending_summary.html'
    if data:
        try:
            import yaml
            doc = yaml.safe_load(data.decode('utf-8')) or {}
            if isinstance(doc, dict):
                out_dir = doc.get('output_dir', out_dir)
                html = doc.get('html_filename', html)
        except Exception:
            pass
    return str(out_dir), str(html)


def find_cfg(pre, sched):
    """Where the budget's config dir is on disk right now (it may have been initialised elsewhere)."""
    return sched['model']['cfg']


def allowed_report_paths(pre, sched, step):
    cfg = find_cfg(pre, sched)
    budget = os.path.dirname(cfg)
    out_dir, html = settings_in_use(pre, cfg, step)
    allowed = set()
    dirs = set()
    if step.get('out_o'):
        target = os.path.normpath(step['out_o'])
    else:
        od = os.path.normpath(os.path.join(budget, out_dir))
        target = os.path.normpath(os.path.join(od, html))
        d = od
        while d and d not in ('.', ''):
            dirs.add(d)
            d = os.path.dirname(d)
    allowed.add(target)
    if step.get('noembed'):
        td = os.path.dirname(target)
        for n in ('spending_report.css', 'spending_report.js', 'spending_data.js'):
            allowed.add(os.path.normpath(os.path.join(td, n)))
    return allowed, dirs


def check_step(sched, step, pre, post, r):
    """Returns list of (invariant, path_class, change, witness)."""
    out = []
    cfg = find_cfg(pre, sched)
    changes = util.diff(pre, post)
    eff_paths = util.effect_paths(r.events)
    kind = step['kind']

    def bad(inv, rel, change):
        out.append((inv, classify_path(rel), change,
                    '`tally %s` (cwd=%s) %s %s' % (' '.join(step['argv']), step['cwd'], change, rel)))

    if kind in ('up', 'run', 'decline', 'explain', 'discover', 'diag', 'inspect'):
        allowed, dirs = (set(), set())
        if kind in ('up', 'run', 'decline'):
            allowed, dirs = allowed_report_paths(pre, sched, step)
        for rel, ch in changes:
            key = rel.rstrip('/')
            if key in allowed or (rel.endswith('/') and key in dirs):
                continue
            inv = 'CONSENT' if classify_path(rel) in ('csv-rules', 'rules') and kind in ('up', 'run', 'decline') else 'RO'
            bad(inv, rel, ch)
        for p in sorted(eff_paths):
            if p in allowed or p in dirs:
                continue
            if not any(p == c[0].rstrip('/') for c in changes):
                # touched but byte-identical afterwards: still a write to a user file
                bad('RO', p + ('/' if pre.get(p + '/', 0) is None and (p + '/') in pre else ''), 'written-then-same')
        return out

    if kind == 'migrate':
        allowed, dirs = allowed_report_paths(pre, sched, step)
        sname = 'settings-2024.yaml' if step.get('alt') else 'settings.yaml'      # the settings file the budget is run with
        mig = {cfg + '/merchants.rules', cfg + '/merchant_categories.csv', cfg + '/' + sname}
        csv_pre = pre.get(cfg + '/merchant_categories.csv')
        for rel, ch in changes:
            key = rel.rstrip('/')
            if key in allowed or (rel.endswith('/') and key in dirs):
                continue
            bn = os.path.basename(key)
            if key in mig or (os.path.dirname(key) == cfg and (bn.startswith('merchants.rules.') or bn.startswith('merchant_categories.csv.bak')
                                                               or bn.endswith('.tmp'))):
                continue
            if key.endswith('@') and key[:-1] == cfg + '/merchants.rules':
                # a dangling link where the generated rules file goes: the requested migration puts the file there (nothing it pointed to is lost)
                continue
            bad('RO', rel, ch)
        # settings only grew
        s0 = pre.get(cfg + '/' + sname)
        s1 = post.get(cfg + '/' + sname)
        if s0 is not None and (s1 is None or not s1.startswith(s0)):
            # a requested migration may fill in a `merchants_file:` key that had no value where it stands; every other line stays
            import re as _re
            empty_key = _re.compile(rb'^[ \t]*merchants_file[ \t]*:[ \t]*(null|~|""|\'\')?[ \t]*(#.*)?\r?$')
            old_lines = [ln for ln in s0.split(b'\n') if not empty_key.match(ln) and ln.strip()]
            it = iter((s1 or b'').split(b'\n'))
            kept = s1 is not None and len(old_lines) < len([ln for ln in s0.split(b'\n') if ln.strip()]) and all(any(x == y for y in it) for x in old_lines)
            if not kept:
                bad('RO', cfg + '/' + sname, 'rewritten (old bytes are not a prefix)')
        # a requested migration may replace rule files, but never lose what the user had in them: every pre-existing
        # rules / backup file content must still be the content of some file (the original is "kept as a backup")
        have = set(c_ for c_ in post.values() if c_ is not None)
        pre_user = dict(pre)
        for a_ in (step.get('tty') or {}).get('answers') or []:
            if isinstance(a_, dict):
                for rel_, text_ in ((a_.get('actor') or {}).get('write') or {}).items():
                    if any(e_.get('k') == 'actor' and e_.get('path') == rel_ for e_ in r.events):
                        pre_user[rel_] = text_.encode('utf-8')      # saved by the user while tally waited at the prompt: theirs like any other file
        for p_, c_ in sorted(pre_user.items()):
            if p_.endswith('@'):
                continue      # a symbolic link is a name, not content
            if c_ and os.path.dirname(p_) == cfg and classify_path(p_) in ('rules', 'csv-rules') and c_ not in have:
                bad('BAK', p_, 'lost (its content is in no file any more)')
        if csv_pre is not None and post.get(cfg + '/merchant_categories.csv') != csv_pre:
            baks = [c for p, c in post.items() if p.startswith(cfg + '/merchant_categories.csv.bak') and c is not None]
            if csv_pre not in baks:
                bad('BAK', cfg + '/merchant_categories.csv', 'changed without a byte-identical .bak')
        return out

    if kind == 'init':
        target = step.get('target')
        if target is None:
            # `tally init` with no directory: the current directory when it has config/, else ./tally
            target = '.' if any(p.startswith('config/') for p in pre) else 'tally'
        tcfg = os.path.normpath(os.path.join(target, 'config'))
        starters = {os.path.normpath(os.path.join(tcfg, n)) for n in ('settings.yaml', 'merchants.rules', 'views.rules')}
        starters.add(os.path.normpath(os.path.join(target, '.gitignore')))
        sdirs = set()
        for d in (tcfg, os.path.join(target, 'data'), os.path.join(target, 'output')):
            d = os.path.normpath(d)
            while d and d not in ('.', ''):
                sdirs.add(d)
                d = os.path.dirname(d)
        csvp = tcfg + '/merchant_categories.csv'
        csv_pre = pre.get(csvp)
        may_migrate = csv_pre is not None and csv_has_rules(csv_pre) and (tcfg + '/merchants.rules') not in pre
        for rel, ch in changes:
            key = rel.rstrip('/')
            if ch == 'created':
                # anything that did not exist before was "missing": creating it keeps every existing file.
                # (which starter files init chooses to create is not what the statement constrains)
                continue
            if key == tcfg + '/settings.yaml' and ch == 'changed':
                o, n = pre[key], post[key]
                if not n.startswith(o):
                    bad('INIT', rel, 'rewritten (old bytes are not a prefix)')
                    continue
                nl = ('\n', '\r') if isinstance(o, str) else (b'\n', b'\r')
                if o and not o.endswith(nl) and not n[len(o):len(o) + 1] in nl:
                    # "may only gain appended *lines*": what is added begins on a line of its own, the user's last line
                    # (which has no line terminator) stays the line it was
                    bad('INIT', rel, 'last line altered (text appended to an unterminated last line)')
                continue
            if key == tcfg + '/merchants.rules@' and ch == 'deleted' and csv_pre is not None and csv_has_rules(csv_pre) and (tcfg + '/merchants.rules') in post:
                continue      # init's migration case: the generated rules file takes the place of a link that pointed nowhere
            if key == csvp and ch == 'deleted' and may_migrate:
                baks = [c for p, c in post.items() if p.startswith(csvp + '.bak') and c is not None]
                if csv_pre in baks:
                    continue
                bad('BAK', rel, 'removed without a byte-identical .bak')
                continue
            bad('CONSENT' if key == csvp else 'INIT', rel, ch)
        # effect log: a pre-existing file other than settings / the CSV must not even be opened for writing
        for p in sorted(eff_paths):
            if p in pre and pre[p] is not None:
                if p == tcfg + '/settings.yaml' or (p == csvp and may_migrate):
                    continue
                if not any(p == c[0] for c in changes):
                    bad('INIT', p, 'written-then-same')
        return out
    return out


def world_shape(pre, cfg, layout):
    rk = 'rules' if (cfg + '/merchants.rules') in pre else 'none'
    if (cfg + '/merchant_categories.csv') in pre:
        rk += '+csv'
    return '%s|%s|%s' % (layout, rk, 'views' if (cfg + '/views.rules') in pre else 'noviews')


# ----------------------------------------------------------------------------- execution

def execute(sched, scratch, seed=None, i=None):
    import shutil
    root = os.path.join(scratch, 'world')
    ctlp = os.path.join(scratch, 'ctl')
    log = [['schedule', util.digest(sched)]]
    count = {'histories': 1, 'sim_processes': 0, 'fs_effects': 0}
    sets = {'triples': set(), 'post_states': set(), 'transitions': set(), 'variants': set()}
    violations = []
    try:
        pre = util.restore(root, util.snap_from_json(sched['world']))
        prev = None
        generated = []
        for j, step in enumerate(sched['steps']):
            if step['kind'] == 'edit-generated':
                # the user edits every file the last `init` created (an outside actor between two commands)
                for rel_ in generated:
                    p_ = os.path.join(root, rel_)
                    if os.path.isfile(p_) and not os.path.islink(p_):
                        with open(p_, 'ab') as fh_:
                            fh_.write(b'\n# my own notes - keep\n')
                pre = util.snapshot(root)
                log.append(['edit-generated', sorted(generated), util.tree_digest(pre)])
                continue
            env = {k: v.replace('<ROOT>', os.path.realpath(root)) for k, v in (step.get('env') or {}).items()}
            plan = {'tty': dict(step['tty'], answers=list(step['tty'].get('answers') or [])), 'net': 'down',
                    'today': '2025-06-15', 'env': env, 'fault': step.get('fault'), 'reads': step.get('reads')}
            if (step.get('fault') or {}).get('kind') == 'stdout-broken':
                plan['stdout_fault'] = {'after_effect': step['fault'].get('after_effect', -1), 'stream': step['fault'].get('stream', 'stdout')}
                plan['fault'] = None
            if (step.get('fault') or {}).get('kind') == 'listdir':
                plan['listdir'] = {step['fault']['path']: {'kind': 'oserror', 'errno': step['fault'].get('errno', 'EACCES')}}
                plan['fault'] = None
            argv = [a.replace('<ROOT>', os.path.realpath(root)) for a in step['argv']]
            r = proc.run_cli(root, argv, plan, cwd=step['cwd'], ctl_parent=ctlp)
            post = util.snapshot(root)
            badaudit = util.audit(pre, post, r.events)
            if badaudit:
                raise proc.HarnessError('effect seam incomplete: %r after %r' % (badaudit[:5], step['argv']))
            count['sim_processes'] += 1
            count['fs_effects'] += len(r.effects)
            if r.fired:
                k = 'fired.' + (step.get('fault') or {}).get('kind', 'read')
                count[k] = count.get(k, 0) + 1
            if any(e.get('k') == 'readfault' for e in r.events):
                count['fired.readfault'] = count.get('fired.readfault', 0) + 1
            count['exit.%s' % ('0' if r.exit == 0 else 'crash' if r.crashed else 'nonzero')] = \
                count.get('exit.%s' % ('0' if r.exit == 0 else 'crash' if r.crashed else 'nonzero'), 0) + 1
            log.append(['step', j, step['argv'], step['cwd'], r.exit,
                        [[e['k'], e.get('path') or e.get('src'), e.get('dst')] for e in r.effects],
                        util.sha(util.norm_text(r.out, root)), util.sha(util.norm_text(r.err, root)), util.tree_digest(post)])
            if step['kind'] == 'init':
                generated = [r_ for r_, ch_ in util.diff(pre, post) if ch_ == 'created' and not r_.endswith('/') and not r_.endswith('@')]
            wrote = bool(r.effects)
            sets['triples'].add('%s|%s|%s' % (step['variant'], world_shape(pre, sched['model']['cfg'], sched['model']['layout']), wrote))
            sets['variants'].add(step['variant'])
            sets['post_states'].add(util.tree_digest(post))
            if prev:
                sets['transitions'].add(prev + '>' + step['kind'])
            prev = step['kind']
            for inv, pclass, change, witness in check_step(sched, step, pre, post, r):
                sig = {'command': step['variant'].split(':')[0], 'file': pclass, 'change': change.split(' ')[0]}
                if step['kind'] == 'init' and step.get('fault'):
                    sig['under'] = step['fault']['kind']
                violations.append({'invariant': inv,
                                   'signature': sig,
                                   'witness': 'step %d of %d%s: %s' % (j + 1, len(sched['steps']), (' under %r' % step['fault']) if step.get('fault') else '', witness),
                                   'schedule': {'property': ID, 'seed': seed, 'run': i, 'sched': sched}})
            if step['kind'] == 'init' and sched.get('sweep_init') and not step.get('fault') and r.effects:
                # init under faults: every effect of the run just seen fails once (errno by kind) and the process dies once there,
                # from the same starting tree; `keeps each of them (settings may only gain appended lines)` has no fair-weather clause
                # ... and what the run *looked at* fails too: every directory it listed cannot be listed (searchable but not
                # readable, a network folder that hiccups) - a program that takes "I could not look" for "nothing there" overwrites
                listed = []
                for e_ in r.events:
                    if e_.get('k') == 'listdir' and e_['path'] not in listed:
                        listed.append(e_['path'])
                sweep = [(k_, f_) for k_, e_ in enumerate(r.effects) for f_ in (
                    {'kind': 'oserror', 'at': k_, 'cut': 'half',
                     'errno': {'open': 'EACCES', 'write': 'ENOSPC', 'close': 'EIO', 'rename': 'EACCES', 'mkdir': 'ENOSPC'}.get(e_['k'], 'EIO')},
                    {'kind': 'crash', 'at': k_, 'cut': 'half'}, {'kind': 'oserror-from', 'at': k_, 'errno': 'ENOSPC'},
                    {'kind': 'stdout-broken', 'after_effect': k_, 'stream': 'stdout'})]
                sweep += [(k_, {'kind': 'short-write', 'at': k_}) for k_, e_ in enumerate(r.effects)
                          if e_['k'] == 'write' and e_.get('via') == 'os.write' and e_.get('size', 0) > 1]
                sweep += [(-1, {'kind': 'listdir', 'path': d_, 'errno': en_}) for d_ in listed for en_ in ('EACCES', 'EIO')]
                if True:
                    for k_, fault in sweep:
                        util.restore(root, pre)
                        p2 = dict(plan, fault=fault, tty=dict(step['tty'], answers=list(step['tty'].get('answers') or [])))
                        if fault['kind'] == 'stdout-broken':
                            p2.update(fault=None, stdout_fault={'after_effect': k_, 'stream': 'stdout'})
                        if fault['kind'] == 'listdir':
                            p2.update(fault=None, listdir={fault['path']: {'kind': 'oserror', 'errno': fault['errno']}})
                        r2 = proc.run_cli(root, argv, p2, cwd=step['cwd'], ctl_parent=ctlp)
                        post2 = util.snapshot(root)
                        bad2 = util.audit(pre, post2, r2.events)
                        if bad2:
                            raise proc.HarnessError('effect seam incomplete: %r after %r under %r' % (bad2[:5], step['argv'], fault))
                        count['sim_processes'] += 1
                        count['fs_effects'] += len(r2.effects)
                        if r2.fired:
                            count['fired.init-' + fault['kind']] = count.get('fired.init-' + fault['kind'], 0) + 1
                        log.append(['init-fault', j, fault, r2.exit, util.tree_digest(post2)])
                        sets['post_states'].add(util.tree_digest(post2))
                        fstep = dict(step, fault=fault)
                        for inv, pclass, change, witness in check_step(sched, fstep, pre, post2, r2):
                            violations.append({'invariant': inv,
                                               'signature': {'command': 'init', 'file': pclass, 'change': change.split(' ')[0], 'under': fault['kind']},
                                               'witness': 'step %d of %d under %r: %s' % (j + 1, len(sched['steps']), fault, witness),
                                               'schedule': {'property': ID, 'seed': seed, 'run': i,
                                                            'sched': dict(sched, steps=sched['steps'][:j] + [fstep], sweep_init=False)}})
                util.restore(root, post)
            pre = post
    finally:
        shutil.rmtree(scratch, ignore_errors=True)
    dig = util.digest(log)
    for v in violations:
        v['digest'] = dig
    return {'violations': violations, 'count': count, 'sets': {k: sorted(v) for k, v in sets.items()},
            'samples': [], 'digest': dig}


def add_faults(rng, sched):
    """thorough: one crash / OSError / read fault inside one read-only command of the history."""
    ro = [j for j, s in enumerate(sched['steps']) if s['kind'] in ('up', 'run', 'explain', 'discover', 'diag', 'inspect', 'decline')]
    if not ro:
        return
    j = rng.choice(ro)
    writers = [k for k in ro if sched['steps'][k]['variant'].split(':')[-1] in ('html', 'quiet', 'outfile', 'noembed', 'category', 'only', 'tags')]
    if writers and rng.random() < 0.7:
        j = rng.choice(writers)      # faults belong inside operations that have in-flight state: the report writers
    s = sched['steps'][j]
    r = rng.random()
    if r < 0.15:
        # whoever reads the output goes away (`tally discover | head`, a closed terminal): from some point on every print fails
        s['fault'] = {'kind': 'stdout-broken', 'after_effect': rng.choice([-1, -1, 0, 1, 3]), 'stream': rng.choice(['stdout', 'both'])}
    elif r < 0.5:
        s['fault'] = {'kind': rng.choice(['crash', 'crash', 'oserror', 'kbi']), 'at': rng.randint(0, 4),
                      'cut': rng.choice(['none', 'half', 'all']), 'errno': rng.choice(['ENOSPC', 'EACCES', 'EIO'])}
    else:
        files = [p for p, v in sched['world'].items() if v is not None]
        p = rng.choice(files)
        s['reads'] = {p: rng.choice([{'kind': 'oserror', 'errno': rng.choice(['EACCES', 'EIO', 'EMFILE'])},
                                     {'kind': 'eio', 'after': rng.randint(0, 40)}])}


def run_one(seed, i, tier, scratch):
    rng = util.rng_for(seed, ID, i)
    sched = gen_schedule(rng, i, tier)
    if rng.random() < (0.5 if tier == 'thorough' else 0.25):
        add_faults(rng, sched)
    sched['sweep_init'] = rng.random() < 0.5
    res = execute(sched, scratch, seed, i)
    if i < 3:
        res['samples'] = [{'seed': seed, 'run': i, 'world_files': sorted(sched['world']),
                           'steps': [{'argv': s['argv'], 'cwd': s['cwd'], 'tty': s['tty'], 'env': s.get('env'),
                                      'fault': s.get('fault'), 'reads': s.get('reads')} for s in sched['steps']]}]
    return res


def replay(schedule, scratch):
    res = execute(schedule['sched'], scratch, schedule.get('seed'), schedule.get('run'))
    return {'violations': res['violations'], 'digest': res['digest']}


def shrink_candidates(schedule):
    sched = schedule['sched']
    steps = sched['steps']
    for j in range(len(steps)):
        s2 = dict(sched, steps=steps[:j] + steps[j + 1:])
        yield dict(schedule, sched=s2)
    protect = set(r for r in sched['world'] if r.endswith('settings.yaml'))
    for w in shrink_world_candidates(sched['world'], protect):
        yield dict(schedule, sched=dict(sched, world=w))


def coverage(count, sets, samples, tier):
    return {
        'evaluations': count.get('sim_processes', 0),
        'distinct_nontrivial': len(sets.get('triples', ())),
        'rule': RULE,
        'samples': samples,
        'histories': count.get('histories', 0),
        'fs_effects': count.get('fs_effects', 0),
        'command_variants_run': sorted(sets.get('variants', ())),
        'distinct_post_states': len(sets.get('post_states', ())),
        'distinct_transitions': len(sets.get('transitions', ())),
        'faults_fired': {k[6:]: v for k, v in count.items() if k.startswith('fired.')},
        'exits': {k[5:]: v for k, v in count.items() if k.startswith('exit.')},
        'fault_configuration': 'a quarter of the histories (thorough: half) carry one crash/OSError/KeyboardInterrupt or one read fault '
                               'inside a read-only command; the oracle is the same (a fault cannot license a write elsewhere); counted above.  In half of the '
                               'histories every `init` step is additionally re-run from the same starting tree once per (effect of its fault-free trace) x '
                               '(that effect fails with an errno legal for its kind | the process dies there with half of the in-flight file written | the disk '
                               'stays full from there on): the INIT clause is judged after each',
    }
