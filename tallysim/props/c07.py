"""C07 - classification depends only on the current rules and the transaction, not on history.

exploration: one long-lived simulated process S runs a seeded history of operations; every
operation's result is compared with a freshly forked reference process R that performs only the
most recent load and that operation.  Frame checks (rules, variables, transforms, supplemental
rows, cached ASTs, transaction) surround every classify/evaluate operation.  See DESIGN.md 5.3.
"""
import os
import re
import shutil
import sys

from .. import proc, util

ID = 'C07'
LEVEL = 'exploration'
COMPONENTS = {
    'real': ['tally.merchant_utils.get_all_rules / get_transforms / normalize_merchant', 'tally.parsers.parse_generic_csv',
             'tally.merchant_engine.parse_merchants / MerchantEngine.match', 'tally.expr_parser.evaluate_transaction / evaluate_filter',
             'tally.section_engine.parse_sections / classify_merchants', 'the three process-wide caches, untouched by the harness'],
    'stub': ['the user editing rule files between operations (harness rewrites the file)', 'read faults on load (EACCES/EIO/ENOENT)'],
    'not_executed': ['CLI argument parsing (the property is about the library surface inside one process)'],
}
ASSUMPTIONS = [
    'the reference for an operation is tally itself in a fresh process after only the most recent load (or failed load)',
    'results are compared after canonicalisation: tag lists as sorted sets, object addresses masked',
    'no crash is injected: a crash ends the history, and the property is about what survives inside a process',
]
RULE = ('history = 5-40 operations from {LOAD(path, mode) of .rules/.csv/None, EDIT then reload, LOADFAIL (ENOENT/EACCES/EIO or a '
        'corrupt version), CLASSIFY, CLASSIFY_FILE, ENGINE, MATCH, EVAL, FILTER, VIEWS, CMD (a whole tally command), CLOCK (the calendar date moves while the process lives; the reference process runs on the same day)} over pools built to collide. '
        'distinct_nontrivial counts distinct (abstract cache state before, operation kind, abstract cache state after) '
        'transitions, the abstract state being (source of the engine cached for normalize_merchant, outcome of the last load, '
        'bitmask of pool expressions present in the parse cache).')


def runs(tier):
    return 200 if tier == 'quick' else 12000


# ----------------------------------------------------------------------------- pools

RULE_FILES = {
    'a.rules': '''[Netflix]
match: contains("NETFLIX")
category: Subscriptions
subcategory: Streaming
tags: fun

[Coffee]
match: contains("COFFEE") and amount > 3
category: Food
subcategory: Coffee

[Big]
match: amount > 500
tags: large
''',
    # same rule names and expressions as a.rules, different categories
    'b.rules': '''[Netflix]
match: contains("NETFLIX")
category: Entertainment
subcategory: TV

[Coffee]
match: contains("COFFEE") and amount > 3
category: Dining
subcategory: Cafe
tags: treat
''',
    'c.csv': '''Pattern,Merchant,Category,Subcategory,Tags
NETFLIX,Netflix Csv,Media,Video,csvtag
COFFEE[amount>3],Coffee Csv,Drinks,Hot,
UBER,Uber Csv,Transport,Ride,business|travel
''',
    'd.rules': '''[Broken]
match: contains("NETFLIX"
category: Nope
''',
    'e.rules': '''is_large = amount > 100
field.description = regex_replace(field.description, "^SQ \\\\*", "")

[Uber Eats]
let: eats = contains("EATS")
match: contains("UBER") and eats
category: Food
subcategory: Delivery
field: code = extract("r(\\\\d+)")
tags: delivery, {field.kind}

[Uber]
match: contains("UBER")
category: Transport
subcategory: Rideshare
priority: 10

[Large]
match: is_large
tags: large

[Orders]
match: any(r.amount == txn.amount for r in orders)
tags: ordered
''',
    'f.csv': '''Pattern,Merchant,Category,Subcategory
NETFLIX,Netflix Two,Bills,Net
''',
    # variables that can be evaluated for some transactions only (a captured column one source has and another lacks,
    # supplemental rows that are passed on one call and not on the next), used positively and negatively
    'k.rules': '''is_pos = field.kind == "POS"
is_ach = field.kind == "ACH"
has_order = len([r for r in orders if r.amount == txn.amount]) > 0

[Point Of Sale]
match: is_pos
category: Shopping
subcategory: Terminal

[Wire]
match: is_ach or has_order
category: Transfers
subcategory: Wire
tags: wire

[Not Pos]
match: not is_pos
tags: remote

[Kind]
let: k = field.kind
match: k == "CARD" or k == "ACH"
tags: kinded, {k}

[Coffee]
match: contains("COFFEE")
category: Food
subcategory: Coffee
''',
    # an uncompilable pattern in the middle: it must be skipped on every classification alike
    'h.csv': '''Pattern,Merchant,Category,Subcategory,Tags
*MART,Broken Regex,Misc,Bad,
UBER,Uber After Bad,Transport,Ride,car
COFFEE(,Unbalanced,Misc,Bad,
COFFEE,Coffee After Bad,Food,Cafe,
RENT[amount>100],Rent Csv,Housing,Rent,
''',
}
# rule files as other programs save them: UTF-16 with a byte-order mark (Notepad "Unicode"), Windows-1252, UTF-8 with a BOM.
# Whatever the loader makes of each of them, it makes the same of it every time - and of the files loaded after it.
_ENC_TEXT = '[Cafe]\nmatch: contains("COFFEE")\ncategory: Food\nsubcategory: Caf\u00e9\n\n[Netflix]\nmatch: contains("NETFLIX")\ncategory: Fun\nsubcategory: TV\n'
RULE_FILES['u16.rules'] = b'\xff\xfe' + _ENC_TEXT.encode('utf-16-le')
RULE_FILES['w1252.rules'] = _ENC_TEXT.encode('cp1252')
RULE_FILES['bom8.rules'] = b'\xef\xbb\xbf' + _ENC_TEXT.encode('utf-8')
RULE_FILES['cr.rules'] = _ENC_TEXT.replace('\u00e9', 'e').replace('\n', '\r')
GEN_CSV_PATTERNS = ['UBER', 'UBER.*EATS', 'COFFEE', '*BAD', 'NETFLIX', 'COFFEE(', 'RENT[amount>100]', 'contains("UBER") and amount > 10', '[', 'UBER|COFFEE',
                    'UBER[date:last30days]', 'COFFEE[date:last60days]', 'NETFLIX[date:last365days]',
                    'COFFEE[amount:200-1]', 'UBER[date:2025-12-31..2025-01-01]', 'NETFLIX[amount:50-5]', 'COFFEE[amount:1-200]', 'UBER[date:2025-01-01..2025-12-31]']
# the days a long-lived process may live to see (CLOCK operation): chosen around the transaction dates so that the
# [date:lastNdays] windows of the CSV pools open and close, plus both leap days
CLOCK_DAYS = ['2025-01-08', '2025-02-03', '2025-02-08', '2025-03-01', '2025-03-10', '2025-04-30', '2025-06-15', '2026-01-20', '2024-02-29', '2028-02-29']
DATED_CSV = ['UBER[date:last30days],Uber Recent,Transport,Recent,\nUBER,Uber Old,Transport,Old,\n',
             'COFFEE[date:last60days],Coffee Recent,Food,Recent,new\nNETFLIX[date:last365days],Netflix Year,Media,Year,\nCOFFEE,Coffee Old,Food,Old,\n',
             'UBER[date:last365days],Uber Year,Transport,Year,\nRENT[date:last30days],Rent Now,Housing,Now,\nRENT[date:last730days],Rent Then,Housing,Then,\n']


def gen_csv_text(rng):
    lines = ['Pattern,Merchant,Category,Subcategory,Tags']
    for k in range(rng.randint(2, 5)):
        cat, sub = rng.choice(GEN_CATS)
        p_ = rng.choice(GEN_CSV_PATTERNS)
        lines.append('%s,%s %d,%s,%s,%s' % ('"%s"' % p_.replace('"', '""') if ',' in p_ or '"' in p_ else p_, rng.choice(GEN_NAMES), k, cat, sub,
                                            rng.choice(['', 'fun', 'biz|fun'])))
    return '\n'.join(lines) + '\n'


EDITS = {
    'a.rules': ['''[Netflix]
match: contains("NETFLIX")
category: Edited
subcategory: Once
''', '''[Coffee]
match: contains("COFFEE")
category: Edited
subcategory: Twice
tags: edited
'''],
    'b.rules': ['''[Netflix]
match: contains("NETFLIX") and amount > 1000
category: Entertainment
subcategory: TV
'''],
    'c.csv': ['''Pattern,Merchant,Category,Subcategory
NETFLIX,Netflix Csv2,Media2,Video2
'''],
    'e.rules': ['''[Uber]
match: contains("UBER")
category: Transport
subcategory: Edited
'''],
}
CORRUPT = {
    'a.rules': '[Netflix]\nmatch: contains("NETFLIX")\ncategory: X\nbogus: 1\n',
    'b.rules': '[Netflix]\ncategory: NoMatch\n',
    'e.rules': '[Uber]\nmatch: contains("UBER") and\ncategory: T\n',
}
STATEMENT = 'Date,Description,Amount,Kind\n01/05/2025,NETFLIX r1,15.99,ACH\n01/06/2025,COFFEE r2,4.50,POS\n' \
            '01/07/2025,UBER EATS r3,25.00,CARD\n02/01/2025,SQ *COFFEE r4,2.00,POS\n02/02/2025,RENT r5,1200.00,WIRE\n'
STATEMENT_FMT = '{date:%m/%d/%Y},{description},{amount},{kind}'

TXNS = [
    {'description': 'NETFLIX r1', 'amount': 15.99, 'date': '2025-01-05', 'field': None, 'source': 'Card'},
    {'description': 'COFFEE r2', 'amount': 4.5, 'date': '2025-01-06', 'field': {'kind': 'POS'}, 'source': 'Card'},
    {'description': 'COFFEE r9', 'amount': 2.0, 'date': '2025-03-06', 'field': None, 'source': 'Bank'},
    {'description': 'UBER EATS r3', 'amount': 25.0, 'date': '2025-01-07', 'field': {'kind': 'CARD'}, 'source': 'Card'},
    {'description': 'UBER r6', 'amount': 700.0, 'date': '2025-02-07', 'field': {'kind': 'ACH'}, 'source': 'Bank'},
    {'description': 'SQ *COFFEE r4', 'amount': 12.0, 'date': '2025-02-01', 'field': None, 'source': 'Card'},
    {'description': 'RENT r5', 'amount': 1200.0, 'date': '2025-02-02', 'field': None, 'source': 'Bank'},
    {'description': 'netflix.com r7', 'amount': -15.99, 'date': '2025-04-05', 'field': {}, 'source': ''},
    {'description': 'SQ *STARBUCK STARBUCKS RESERVE r8', 'amount': 4.75, 'date': '2025-03-09', 'field': {'kind': 'POS'}, 'source': 'Card'},
    {'description': 'STARBUCKS r10', 'amount': 36.4, 'date': '2025-03-10', 'field': None, 'source': 'Card'},
]
# 'date' values are ISO strings here and become date objects in the process (as load_supplemental_sources does);
# one row keeps an unparseable date cell as a string, as the loader would
ROWS = {'orders': [{'amount': 25.0, 'item': 'Dinner', 'date': '2025-01-07'}, {'amount': 12.0, 'item': 'Beans', 'date': '2025-02-01'},
                   {'amount': 3.0, 'item': 'Later', 'date': 'Pending'},
                   # a short line of the export: this row has no `item` column
                   {'amount': 15.99, 'date': '2025-01-05'}]}

# expressions built to collide in a mis-keyed cache
EXPRS = [
    'regex("\\\\S+ r1")', 'regex("\\\\s+ r1")',            # case inside a regex escape
    'regex("NETFLIX\\\\b")', 'regex("NETFLIX\\\\B")',
    'regex("\\\\d+$")', 'regex("\\\\D+$")',
    'amount > 5', 'amount>5', ' amount > 5', 'amount  >  5',
    'contains("NETFLIX")', "contains('NETFLIX')", 'contains("netflix")', 'CONTAINS("NETFLIX")',
    '(x := amount) > 5 and x < 100', 'x > 5', 'x',
    'len([r for r in orders if r.amount == txn.amount]) > 0', 'r.amount', 'r',
    'extract("(\\\\S+) r")', 'regex("(\\\\S+) r")',
    'amount > "100"', 'description + 1', 'field.kind == "POS"', 'field.nosuch', 'contains(',
    'next(r.item for r in orders if r.amount == txn.amount)',
    'month == 1', 'Month == 1', 'amount > 5 and month == 1', 'amount > 5 and month == 2',
    'true', 'True', 'false',
]
FILTERS = ['category == "Food"', 'category=="Food"', 'total > 10', 'total>10', 'months >= 2', '"fun" in tags',
           "'fun' in tags", 'sum(payments) > 20', 'cv < 0.3', 'total > "x"', 'nosuchvar > 1', 'max(payments) > 10',
           'amount > 5', 'x > 5']
MERCHANT_TXNS = [
    [{'amount': 15.99, 'date': '2025-01-15', 'category': 'Food', 'subcategory': 'Coffee', 'merchant': 'Coffee', 'tags': ['fun']},
     {'amount': 4.5, 'date': '2025-02-15', 'category': 'Food', 'subcategory': 'Coffee', 'merchant': 'Coffee', 'tags': ['fun']}],
    [{'amount': 1200.0, 'date': '2025-02-15', 'category': 'Housing', 'subcategory': 'Rent', 'merchant': 'Rent', 'tags': []}],
    [],
]
VIEWS_TEXTS = [
    'big = total > 100\n\n[Food]\nfilter: category == "Food"\n\n[Big]\nfilter: big\n',
    '[Food]\nfilter: category == "Housing"\n\n[Fun]\nfilter: "fun" in tags\n',
    '[Broken]\nfilter: total >\n',
]
ENGINE_TEXTS = [RULE_FILES['a.rules'], RULE_FILES['b.rules'], RULE_FILES['e.rules'], RULE_FILES['k.rules'],
                '[Only]\nmatch: regex("\\\\S+ r1")\ncategory: One\n', '[Only]\nmatch: regex("\\\\s+ r1")\ncategory: Two\n']


GEN_MATCH = ['contains("UBER")', 'contains("UBER") and contains("EATS")', 'contains("COFFEE")', 'amount > 10', 'contains("NETFLIX")',
             'date >= "2025-02-01"', 'any(r.date >= "2025-01-06" for r in orders if r.amount == txn.amount)',
             'contains("COFFEE") and amount > 3', 'regex("\\\\S+ r1")']
GEN_NAMES = ['Uber', 'Uber Eats', 'Coffee', 'Any', 'Netflix', 'Big']
GEN_CATS = [('Transport', 'Rideshare'), ('Food', 'Delivery'), ('Food', 'Coffee'), ('Misc', 'Other'), ('Fun', 'TV')]


def gen_rules_text(rng, focus=False):
    if focus:
        return gen_focus_text(rng)
    return gen_general_text(rng)


FOCUS_MATCH = ['contains("UBER")', 'contains("UBER") and contains("EATS")', 'amount > 10', 'contains("EATS")', 'date >= "2025-01-06"']


def gen_focus_text(rng):
    """Very small vocabulary: every rule matches the UBER transactions, so that priority / order / category decide
    the outcome and any memo keyed on part of a rule goes stale on the next load."""
    out = []
    if rng.random() < 0.4:
        out.append(rng.choice(['field.description = regex_replace(field.description, "EATS", "RIDE")\n',
                               'field.description = strip_prefix(field.description, "UBER ")\n']))
    for nm in rng.sample(['Uber', 'Uber Eats', 'Any', 'Eats'], rng.randint(2, 3)):
        cat, sub = rng.choice(GEN_CATS[:3])
        lines = ['[%s]' % nm, 'match: ' + rng.choice(FOCUS_MATCH), 'category: ' + cat, 'subcategory: ' + sub]
        if rng.random() < 0.7:
            lines.append('priority: %d' % rng.choice([1, 50, 90]))
        if rng.random() < 0.3:
            lines.append('tags: ' + rng.choice(['fun', 'biz']))
        if rng.random() < 0.2:
            lines.append('merchant: %s Co' % nm)
        out.append('\n'.join(lines) + '\n')
    return '\n'.join(out)


def gen_general_text(rng):
    """A small rules file drawn from a tiny vocabulary, so that two files (or two versions of one file) share rule
    names and match texts while differing in priority / category / tags / merchant / let / field."""
    out = []
    if rng.random() < 0.3:
        out.append('is_large = amount > %d\n' % rng.choice([10, 100]))
    partial = []
    if rng.random() < 0.3:
        partial = rng.sample(['is_pos', 'is_ach', 'has_order'], rng.randint(1, 2))
        for v in partial:
            out.append({'is_pos': 'is_pos = field.kind == "POS"\n', 'is_ach': 'is_ach = field.kind == "ACH"\n',
                        'has_order': 'has_order = len([r for r in orders if r.amount == txn.amount]) > 0\n'}[v])
    if rng.random() < 0.25:
        out.append(rng.choice(['field.ref = extract("r(\\\\d+)")\n', 'field.kind = uppercase(description)\n',
                               'field.ref = extract("(COFFEE)") if contains("COFFEE") else field.ref\n']))
    if rng.random() < 0.35:
        out.append(rng.choice(['field.description = strip_prefix(field.description, "SQ *")\n',
                               'field.description = regex_replace(field.description, "COFFEE", "TEA")\n',
                               'field.description = uppercase(field.description)\n']))
    names = rng.sample(GEN_NAMES, rng.randint(2, 4))
    for nm in names:
        cat, sub = rng.choice(GEN_CATS)
        lines = ['[%s]' % nm, 'match: ' + rng.choice(GEN_MATCH)]
        if rng.random() < 0.85:
            lines += ['category: ' + cat, 'subcategory: ' + sub]
            if rng.random() < 0.3:
                lines.append('tags: ' + rng.choice(['fun', 'biz', 'fun, biz']))
        else:
            lines.append('tags: ' + rng.choice(['fun', 'biz', 'large']))
        if rng.random() < 0.4:
            lines.append('priority: %d' % rng.choice([1, 50, 90]))
        if rng.random() < 0.2:
            lines.append('merchant: %s %s' % (nm, rng.choice(['Inc', 'Co'])))
        if rng.random() < 0.15:
            lines.append('field: code = extract("r(\\\\d+)")')
        if rng.random() < 0.15:
            # a field whose value IS supplemental rows (not a copy of them)
            lines.append(rng.choice(['field: order = [r for r in orders if r.amount == txn.amount]', 'field: first = orders[0]',
                                     'field: when = [r.date for r in orders]']))
        if rng.random() < 0.1:
            lines[1] = 'match: (%s) or exists(field.ref)' % lines[1][len('match: '):]
        if partial and rng.random() < 0.5:
            v = rng.choice(partial)
            lines[1] = 'match: ' + rng.choice([v, 'not ' + v, '%s or amount > 500' % v, '%s and amount > 1' % v])
        out.append('\n'.join(lines) + '\n')
    return '\n'.join(out)


def load_kind(path):
    if path is None:
        return 'none'
    return 'rules' if path.endswith('.rules') else 'csv'


def gen_focus_history(rng):
    """Loads, reloads after edits and classifications concentrated on one family of transactions."""
    extra = {'g1.rules': gen_focus_text(rng), 'g2.rules': gen_focus_text(rng)}
    ops = [{'op': 'FILES', 'files': extra}]
    engines = 0
    uber = [j for j, t in enumerate(TXNS) if 'UBER' in t['description']]
    for _ in range(rng.randint(6, 24)):
        r = rng.random()
        mode = rng.choice(['first_match', 'most_specific', 'most_specific'])
        if r < 0.25:
            ops.append({'op': 'LOAD', 'path': rng.choice(sorted(extra)), 'mode': mode})
        elif r < 0.4:
            p = rng.choice(sorted(extra))
            ops.append({'op': 'EDIT', 'path': p, 'text': gen_focus_text(rng)})
            ops.append({'op': 'LOAD', 'path': p, 'mode': mode})
        elif r < 0.75:
            ops.append({'op': 'CLASSIFY', 'txn': rng.choice(uber), 'rows': False, 'transforms': True})
        elif r < 0.85 or not engines:
            ops.append({'op': 'ENGINE', 'id': engines, 'text': 0, 'mode': mode, 'gen': gen_focus_text(rng)})
            engines += 1
        else:
            ops.append({'op': 'MATCH', 'id': rng.randrange(engines), 'txn': rng.choice(uber), 'rows': False})
    return ops


COLLISION_GROUPS = [
    ['regex("\\S+ r1")', 'regex("\\s+ r1")'], ['regex("NETFLIX\\b")', 'regex("NETFLIX\\B")'], ['regex("\\d+$")', 'regex("\\D+$")'],
    ['amount > 5', 'amount>5', ' amount > 5', 'amount  >  5'],
    ['contains("NETFLIX")', "contains('NETFLIX')", 'contains("netflix")', 'CONTAINS("NETFLIX")'],
    ['(x := amount) > 5 and x < 100', 'x > 5', 'x'], ['month == 1', 'Month == 1'], ['true', 'True', 'false'],
    ['extract("(\\S+) r")', 'regex("(\\S+) r")'],
    ['len([r for r in orders if r.amount == txn.amount]) > 0', 'r.amount', 'r'],
    ['description == "NETFLIX r1"', 'description == "netflix R1"', 'DESCRIPTION == "NETFLIX r1"'],
    ['date >= "2025-01-06"', 'date >= "2025-02-01"', '"2025-01-06" <= date', 'date == "2025-01-05"',
     'len([r for r in orders if r.date >= "2025-01-06"]) > 0', 'any(r.item == "Later" for r in orders if r.date >= "2025-01-06")',
     'description >= "2025-01-06"'],
    ['extract("(N\\w+)")', 'extract("(n\\W+)")', 'EXTRACT("(N\\w+)")'],
]
FILTER_GROUPS = [['category == "Food"', 'category=="Food"', 'CATEGORY == "food"', 'category == "FOOD"'], ['total > 10', 'total>10', 'TOTAL > 10'],
                 ['"fun" in tags', "'fun' in tags", '"FUN" in tags'], ['amount > 5', 'x > 5']]
for _g in COLLISION_GROUPS:
    for _e in _g:
        if _e not in EXPRS:
            EXPRS.append(_e)
for _g in FILTER_GROUPS:
    for _e in _g:
        if _e not in FILTERS:
            FILTERS.append(_e)


# calls of one function that differ in ONE argument (the optional threshold, the index, the replacement...): a memo keyed on
# fewer arguments than the function takes answers the second call with the first call's result
ARG_GROUPS = [
    ['fuzzy("STARBUCKS")', 'fuzzy("STARBUCKS", 0.95)', 'fuzzy("STARBUCKS", 0.5)', 'fuzzy("STARBUCK")', 'fuzzy(description, "STARBUCKS", 0.99)'],
    ['split(description, " ", 0)', 'split(description, " ", 1)', 'split(" ", 1)', 'split("*", 1)'],
    ['substring(description, 0, 3)', 'substring(description, 0, 5)', 'substring(0, 3)', 'substring(1, 3)'],
    ['regex_replace(description, "S", "x")', 'regex_replace(description, "S", "y")', 'regex_replace(description, "s", "x")'],
    ['strip_prefix(description, "SQ *")', 'strip_prefix(description, "SQ")', 'strip_suffix(description, "r8")', 'strip_suffix(description, "r10")'],
    ['extract(description, "(S\\w+)")', 'extract("(S\\w+)")', 'extract(source, "(C\\w+)")'],
    ['contains(description, "STAR")', 'contains(source, "STAR")', 'contains("STAR")', 'startswith(description, "SQ")', 'startswith("SQ")', 'startswith(source, "SQ")'],
    ['normalized("STARBUCKS")', 'normalized("STAR BUCKS")', 'anyof("STARBUCKS", "COFFEE")', 'anyof("COFFEE", "STARBUCKS")', 'anyof("COFFEE")'],
    ['trim(description)', 'trim(source)', 'uppercase(source)', 'uppercase(description)', 'lowercase(description)'],
]
# every kind of syntax node, on the transaction side and on the view side: what one evaluator learns about a node kind
# (allowed or not, handled or not) is nobody else's business
NODE_EXPRS = ['[r.item for r in orders][0] == "Dinner"', 'sum(r.amount for r in orders) > 1', 'orders[0].amount > 1', 'description[0] == "N"',
              '(z := amount) > 5 and z < 100', 'txn.amount > 5', 'description in ("UBER", "LYFT")', 'amount in {1, 2}', 'description[0:3] == "UBE"',
              'amount // 10 == 1', 'amount ** 2 > 4', '1 if amount > 5 else 0', '-amount < 0', '+amount > 0', 'not amount', 'amount is None',
              'f"{amount}" == "1"', '{"a": 1}["a"] == 1', 'lambda: 1', '~1 == -2', 'amount | 1', '[*orders]', 'len(orders) > 1',
              'any(r.amount > 20 for r in orders)', '{r.item for r in orders}', '{r.item: 1 for r in orders}']
NODE_FILTERS = ['[p for p in payments][0] > 1', 'sum(p for p in payments) > 0', 'payments[0] > 1', '(z := total) > 1', 'category in ("Food", "Housing")',
                'total in {1, 2}', 'payments[0:1]', 'total // 10 > 1', 'total ** 2 > 4', '1 if total > 5 else 0', '-total < 0', '+total > 0', 'tags.count',
                'category[0] == "F"', 'f"{total}"', 'lambda: 1', 'total is None', 'not total', 'any(p > 10 for p in payments)', 'len(payments) > 1',
                '{p for p in payments}', '~1 == -2']
NODE_VIEWS = ['[Tuple]\nfilter: category in ("Food", "Housing")\n', '[Comp]\nfilter: sum(p for p in payments) > 0\n\n[Sub]\nfilter: payments[0] > 1\n',
              '[Walrus]\nfilter: (z := total) > 1\n\n[Attr]\nfilter: tags.count\n', '[Cond]\nfilter: 1 if total > 5 else 0\n\n[Pow]\nfilter: total ** 2 > 4\n',
              'lim = [p for p in payments]\n\n[V]\nfilter: len(lim) > 0\n']
NODE_RULES = {'n1.rules': '[T]\nmatch: description in ("NETFLIX", "HULU")\ncategory: X\nsubcategory: Y\n',
              'n2.rules': '[S]\nmatch: description[0:3] == "UBE"\ncategory: X\nsubcategory: Y\n',
              'n3.rules': '[C]\nmatch: len([r for r in orders if r.amount > 1]) > 0\ncategory: X\nsubcategory: Y\ntags: {orders[0].item}, {amount // 10}\n',
              'n4.rules': '[W]\nlet: z = (q := amount)\nmatch: z > 5 and contains("UBER")\ncategory: X\nsubcategory: Y\nfield: first = description[0]\n',
              'n5.rules': 'v = 1 if amount > 5 else 0\n\n[I]\nmatch: v == 1 and -amount < 0\ncategory: X\nsubcategory: Y\ntags: {lambda: 1}, {amount ** 2}\n'}
# patterns Python's re compiles with a FutureWarning (something is said on stderr the first time): first use and later uses agree
ARG_GROUPS.append(['regex("SQ [[]X[]] STARBUCK")', 'regex("STARBUCK[[:space:]]")', 'extract("(S[a-z&&[^x]]+)")', 'regex("STARBUCK")',
                   'regex_replace(description, "[[]", "(")'])
for _g in ARG_GROUPS:
    COLLISION_GROUPS.append(_g)
    for _e in _g:
        if _e not in EXPRS:
            EXPRS.append(_e)
for _e in NODE_EXPRS:
    if _e not in EXPRS:
        EXPRS.append(_e)
for _e in NODE_FILTERS:
    if _e not in FILTERS:
        FILTERS.append(_e)
VIEWS_TEXTS.extend(NODE_VIEWS)


def gen_cross_history(rng):
    """View-side and transaction-side work interleaved in one process, over every kind of syntax node."""
    ops = [{'op': 'FILES', 'files': dict(NODE_RULES)}]
    star = [j for j, t in enumerate(TXNS) if 'STARBUCK' in t['description'] or 'UBER' in t['description']]
    for _ in range(rng.randint(6, 18)):
        r = rng.random()
        if r < 0.2:
            ops.append({'op': 'VIEWS', 'text': VIEWS_TEXTS.index(rng.choice(NODE_VIEWS))})
        elif r < 0.4:
            ops.append({'op': 'FILTER', 'expr': FILTERS.index(rng.choice(NODE_FILTERS)), 'm': rng.randrange(len(MERCHANT_TXNS))})
        elif r < 0.65:
            ops.append({'op': 'EVAL', 'expr': EXPRS.index(rng.choice(NODE_EXPRS)), 'txn': rng.randrange(len(TXNS)), 'rows': rng.random() < 0.8})
        elif r < 0.8:
            ops.append({'op': 'LOAD', 'path': rng.choice(sorted(NODE_RULES)), 'mode': rng.choice(['first_match', 'most_specific'])})
        elif r < 0.9:
            ops.append({'op': 'CLASSIFY', 'txn': rng.choice(star), 'rows': rng.random() < 0.8, 'transforms': True})
        else:
            ops.append({'op': 'ENGINE', 'id': 0, 'text': 0, 'mode': 'first_match', 'gen': rng.choice(sorted(NODE_RULES.values()))})
    return ops


def gen_expr_history(rng):
    """Members of a few collision groups evaluated back to back, in both orders, on a few transactions."""
    ops = []
    for _ in range(rng.randint(2, 4)):
        if rng.random() < 0.75:
            if rng.random() < 0.4:
                # one function, one argument varied - on the transactions these calls tell apart
                g = rng.choice(ARG_GROUPS)
                txns = [j for j, t in enumerate(TXNS) if 'STARBUCK' in t['description']]
            else:
                g = rng.choice(COLLISION_GROUPS)
                txns = [rng.randrange(len(TXNS)) for _ in range(2)]
            for _ in range(rng.randint(2, 6)):
                ops.append({'op': 'EVAL', 'expr': EXPRS.index(rng.choice(g)), 'txn': rng.choice(txns), 'rows': rng.random() < 0.5})
        else:
            g = rng.choice(FILTER_GROUPS)
            for _ in range(rng.randint(2, 5)):
                ops.append({'op': 'FILTER', 'expr': FILTERS.index(rng.choice(g)), 'm': rng.randrange(len(MERCHANT_TXNS))})
    return ops


_CARD = 'Date,Description,Amount\n01/05/2025,NETFLIX r1,15.99\n01/06/2025,COFFEE SHOP r2,4.50\n02/07/2025,UBER TRIP r3,23.10\n02/09/2025,SQ *COFFEE r4,120.00\n'
_SRC = 'data_sources:\n  - name: Card\n    file: data/card.csv\n    format: "{date:%m/%d/%Y},{description},{amount}"\n'
CMD_RULES = [
    '[Netflix]\nmatch: contains("NETFLIX")\ncategory: Subscriptions\nsubcategory: Streaming\ntags: income\n\n[Coffee]\nmatch: contains("COFFEE")\n'
    'category: Food\nsubcategory: Coffee\n',
    'is_large = amount > 100\nfield.description = regex_replace(field.description, "^SQ \\\\*", "")\n\n[Big]\nmatch: is_large\ncategory: Big\nsubcategory: Spend\n'
    'priority: 90\n\n[Coffee]\nmatch: contains("COFFEE")\ncategory: Drinks\nsubcategory: Hot\ntags: fun\n\n[Rides]\nmatch: contains("UBER")\n'
    'category: Transport\nsubcategory: Rideshare\n',
    '[Everything]\nmatch: amount > 1\ncategory: Misc\nsubcategory: All\ntags: transfer\n',
]
CMD_BUDGETS = {
    'b_rules': {'config/settings.yaml': 'year: 2025\n' + _SRC + 'merchants_file: config/merchants.rules\n',
                'config/merchants.rules': CMD_RULES[0], 'data/card.csv': _CARD},
    'b_rules2': {'config/settings.yaml': 'year: 2025\n' + _SRC + 'merchants_file: config/merchants.rules\nrule_mode: most_specific\n',
                 'config/merchants.rules': CMD_RULES[1], 'data/card.csv': _CARD},
    'b_none': {'config/settings.yaml': 'year: 2025\n' + _SRC, 'data/card.csv': _CARD},
    'b_csv': {'config/settings.yaml': 'year: 2025\n' + _SRC,
              'config/merchant_categories.csv': 'Pattern,Merchant,Category,Subcategory\nNETFLIX,Netflix,Fun,TV\nUBER,Uber,Travel,Taxi\n', 'data/card.csv': _CARD},
    'b_csv_nodata': {'config/settings.yaml': 'year: 2025\n' + _SRC,
                     'config/merchant_categories.csv': 'Pattern,Merchant,Category,Subcategory\nNETFLIX,Netflix,Fun,TV\n'},
    'b_missing': {'config/settings.yaml': 'year: 2025\n' + _SRC + 'merchants_file: config/nosuch.rules\n', 'data/card.csv': _CARD},
    'b_views': {'config/settings.yaml': 'year: 2025\n' + _SRC + 'merchants_file: config/merchants.rules\nviews_file: config/views.rules\n',
                'config/merchants.rules': CMD_RULES[0].replace('tags: income\n', ''), 'config/views.rules': '[Food]\nfilter: category == "Food"\n\n[Large]\nfilter: total > 10\n',
                'data/card.csv': _CARD},
}
CMD_BUDGETS['b_refund'] = {
    'config/settings.yaml': 'year: 2025\n' + _SRC + 'merchants_file: config/merchants.rules\nviews_file: config/views.rules\n',
    'config/merchants.rules': '[Netflix]\nmatch: contains("NETFLIX")\ncategory: Fun\nsubcategory: TV\ntags: refund\n\n[Coffee]\nmatch: contains("COFFEE")\n'
                              'category: Food\nsubcategory: Coffee\ntags: business, recurring\n\n[Uber]\nmatch: contains("UBER")\ncategory: Transport\nsubcategory: Ride\ntags: income\n',
    'config/views.rules': '[Everything]\nfilter: total > 0\n\n[Fun]\nfilter: category == "Fun"\n',
    'data/card.csv': _CARD, 'data/semi.csv': 'Date;Description;Amount\n01/05/2025;NETFLIX r1;15.99\n01/06/2025;COFFEE r2;4.50\n',
    'data/tabs.tsv': 'Date\tDescription\tAmount\n01/05/2025\tNETFLIX r1\t15.99\n'}
# sequences of different commands over one budget / one process, stratified over the run index (every one of them occurs in any
# 10 * len(CMD_SEQUENCES) consecutive runs)
CMD_SEQUENCES = [
    [('b_csv', ['up', '{cfg}', '--migrate', '--format', 'json']), ('b_csv', ['up', '{cfg}', '--format', 'json']), ('b_csv', ['explain', '{cfg}'])],
    [('b_csv', ['up', '{cfg}', '--format', 'json']), ('b_csv', ['up', '{cfg}', '--migrate', '-q']), ('b_csv', ['up', '{cfg}', '--format', 'json']), ('b_csv', ['discover', '{cfg}', '--format', 'json'])],
    [('b_csv_nodata', ['up', '{cfg}', '--migrate', '--format', 'json']), ('b_rules', ['up', '{cfg}', '--format', 'json']), ('b_csv_nodata', ['up', '{cfg}', '--format', 'json'])],
    [('b_refund', ['diag', '{cfg}']), ('b_refund', ['up', '{cfg}', '--format', 'json']), ('b_refund', ['up', '{cfg}', '--summary'])],
    [('b_refund', ['inspect', '{budget}/data/semi.csv']), ('b_refund', ['up', '{cfg}', '--format', 'json']), ('b_rules', ['up', '{cfg}', '--format', 'json'])],
    [('b_refund', ['inspect', '{budget}/data/tabs.tsv']), ('b_views', ['up', '{cfg}', '--format', 'json']), ('b_refund', ['inspect', '{budget}/data/card.csv'])],
    [('b_rules', ['explain', '{cfg}']), ('b_csv', ['up', '{cfg}', '--format', 'json']), ('b_rules2', ['discover', '{cfg}', '--format', 'json']), ('b_csv', ['explain', 'Netflix', '{cfg}'])],
    [('b_csv', ['init', '{budget}']), ('b_csv', ['up', '{cfg}', '--format', 'json']), ('b_none', ['init', '{budget}']), ('b_none', ['up', '{cfg}', '--format', 'json'])],
    [('b_views', ['up', '{cfg}', '--format', 'json']), ('b_views', ['diag', '{cfg}', '--format', 'json']), ('b_refund', ['up', '{cfg}', '--format', 'json']), ('b_views', ['up', '{cfg}', '--format', 'json'])],
    [('b_missing', ['up', '{cfg}', '--format', 'json']), ('b_rules', ['up', '{cfg}', '--format', 'json']), ('b_missing', ['explain', '{cfg}']), ('b_rules2', ['up', '{cfg}', '--format', 'json'])],
    # from inside the budget directory: the folder-layout migration (`tally update`, peer down), then commands that must find ./tally/config
    [('b_rules', ['up', '--format', 'json'], 'cwd'), ('b_rules', ['update', '-y'], 'cwd'), ('b_rules', ['up', '--format', 'json'], 'cwd'), ('b_rules', ['explain'], 'cwd')],
    [('b_csv', ['update', '-y'], 'cwd'), ('b_csv', ['up', '--migrate', '--format', 'json'], 'cwd'), ('b_csv', ['up', '--format', 'json'], 'cwd'), ('b_views', ['up', '{cfg}', '--format', 'json'])],
]
CMD_ARGV = [['up', '{cfg}', '--format', 'json'], ['up', '{cfg}', '--format', 'json', '-v'], ['up', '{cfg}', '--format', 'summary'],
            ['explain', '{cfg}'], ['explain', 'Netflix', '{cfg}'], ['explain', 'COFFEE SHOP', '{cfg}', '--amount', '4.5'],
            ['discover', '{cfg}', '--format', 'json'], ['run', '{cfg}', '--format', 'markdown'],
            ['diag', '{cfg}'], ['diag', '{cfg}', '--format', 'json'], ['inspect', '{budget}/data/card.csv'], ['discover', '{cfg}'],
            ['explain', '{cfg}', '--format', 'json'], ['up', '{cfg}', '-q'], ['up', '{cfg}', '--summary'],
            # commands that change the budget (the reference process starts from the tree as it was just before the command)
            ['up', '{cfg}', '--migrate', '--format', 'json'], ['init', '{budget}'], ['up', '{cfg}', '--migrate', '-q']]


def gen_cmd_history(rng):
    """Whole commands, several of them in one long-lived process (a test runner, a watcher, a library user calling main()),
    on different budgets that share descriptions: what a command reports must not depend on the commands before it."""
    files = {}
    for b, fs in CMD_BUDGETS.items():
        for r, t in fs.items():
            files['%s/%s' % (b, r)] = t
    ops = [{'op': 'FILES', 'files': files}]
    names = sorted(CMD_BUDGETS)
    for _ in range(rng.randint(3, 8)):
        if rng.random() < 0.15:
            b = rng.choice(['b_rules', 'b_rules2', 'b_views'])
            ops.append({'op': 'EDIT', 'path': b + '/config/merchants.rules', 'text': rng.choice(CMD_RULES)})
            ops.append({'op': 'CMD', 'budget': b, 'argv': rng.choice(CMD_ARGV)})
            continue
        if rng.random() < 0.25:
            # two different commands back to back on one budget (diag then up, a migration then up, init then explain ...)
            b = rng.choice(names)
            for argv in rng.sample(CMD_ARGV, 2):
                ops.append({'op': 'CMD', 'budget': b, 'argv': argv})
            continue
        ops.append({'op': 'CMD', 'budget': rng.choice(names), 'argv': rng.choice(CMD_ARGV[:3] if rng.random() < 0.5 else CMD_ARGV)})
    return ops


def gen_clock_history(rng):
    """A process that lives through one or more midnights: relative-date rules must follow the calendar."""
    head = 'Pattern,Merchant,Category,Subcategory,Tags\n'
    extra = {'t1.csv': head + rng.choice(DATED_CSV), 't2.csv': head + rng.choice(DATED_CSV)}
    ops = [{'op': 'FILES', 'files': extra}]
    if rng.random() < 0.5:
        ops.append({'op': 'CLOCK', 'today': rng.choice(CLOCK_DAYS)})
    ops.append({'op': 'LOAD', 'path': rng.choice(sorted(extra)), 'mode': 'first_match'})
    for _ in range(rng.randint(4, 14)):
        r = rng.random()
        if r < 0.3:
            ops.append({'op': 'CLOCK', 'today': rng.choice(CLOCK_DAYS)})
        elif r < 0.4:
            ops.append({'op': 'LOAD', 'path': rng.choice(sorted(extra) + ['c.csv']), 'mode': 'first_match'})
        elif r < 0.9:
            ops.append({'op': 'CLASSIFY', 'txn': rng.randrange(len(TXNS)), 'rows': False, 'transforms': False})
        else:
            ops.append({'op': 'CLASSIFY_FILE', 'rows': False})
    return ops


def gen_arg_history(rng, i):
    """Stratified over the run index: one argument-variation group, all members in order (next cycle: in reverse order)
    on each of the transactions that tell them apart - whatever the seed, 180 consecutive runs have done every group both ways."""
    k = i // 10
    g = list(ARG_GROUPS[k % len(ARG_GROUPS)])
    if (k // len(ARG_GROUPS)) % 2:
        g.reverse()
    ops = []
    for t in [j for j, tx in enumerate(TXNS) if 'STARBUCK' in tx['description']]:
        for e in g:
            ops.append({'op': 'EVAL', 'expr': EXPRS.index(e), 'txn': t, 'rows': False})
    return ops


def gen_seq_history(rng, i):
    files = {}
    for b, fs in CMD_BUDGETS.items():
        for r, t in fs.items():
            files['%s/%s' % (b, r)] = t
    ops = [{'op': 'FILES', 'files': files}]
    for step in CMD_SEQUENCES[(i // 10) % len(CMD_SEQUENCES)]:
        op = {'op': 'CMD', 'budget': step[0], 'argv': step[1]}
        if len(step) > 2:
            op['cwd'] = True
        ops.append(op)
    return ops


def gen_history(rng, tier, i=None):
    r0 = rng.random()
    if i is not None and i % 10 == 7:
        ops = gen_arg_history(rng, i)
        if (i // 10) % 3 == 0:
            ops[0] = dict(ops[0], stderr_broken=True)      # (group 9 - patterns that make Python warn on stderr - falls on such a run)
        return ops
    if i is not None and i % 10 == 4:
        return gen_seq_history(rng, i)
    if r0 < 0.08:
        return gen_clock_history(rng)
    if r0 < 0.18:
        return gen_cross_history(rng)
    if r0 < 0.35:
        return gen_focus_history(rng)
    if r0 < 0.55:
        return gen_expr_history(rng)
    if r0 < 0.67:
        return gen_cmd_history(rng)
    n = rng.randint(5, 40)
    ops = []
    extra = {'g1.rules': gen_rules_text(rng), 'g2.rules': gen_rules_text(rng), 'g3.rules': gen_rules_text(rng), 'g4.csv': gen_csv_text(rng)}
    ops.append({'op': 'FILES', 'files': extra})
    names = sorted(RULE_FILES) + sorted(extra) + sorted(extra)
    engines = 0
    for _ in range(n):
        r = rng.random()
        if r < 0.2:
            p = rng.choice(names + [None])
            ops.append({'op': 'LOAD', 'path': p, 'mode': rng.choice(['first_match', 'most_specific'])})
        elif r < 0.27:
            if rng.random() < 0.5:
                p = rng.choice(sorted(extra))
                ops.append({'op': 'EDIT', 'path': p, 'text': gen_csv_text(rng) if p.endswith('.csv') else gen_rules_text(rng)})
            else:
                p = rng.choice(sorted(EDITS))
                ops.append({'op': 'EDIT', 'path': p, 'version': rng.randrange(len(EDITS[p]))})
            if rng.random() < 0.7:
                ops.append({'op': 'LOAD', 'path': p, 'mode': rng.choice(['first_match', 'most_specific'])})
        elif r < 0.34:
            p = rng.choice(['a.rules', 'b.rules', 'e.rules', 'c.csv'])
            if p in CORRUPT and rng.random() < 0.5:
                ops.append({'op': 'EDIT', 'path': p, 'corrupt': True})
                ops.append({'op': 'LOAD', 'path': p, 'mode': 'first_match'})
            else:
                ops.append({'op': 'LOAD', 'path': p, 'mode': 'first_match',
                            'fault': rng.choice([{'kind': 'oserror', 'errno': 'EACCES'}, {'kind': 'oserror', 'errno': 'ENOENT'},
                                                 {'kind': 'eio', 'after': rng.randint(0, 30)}])})
        elif r < 0.6:
            ops.append({'op': 'CLASSIFY', 'txn': rng.randrange(len(TXNS)), 'rows': rng.random() < 0.6,
                        'transforms': rng.random() < 0.8})
        elif r < 0.66:
            ops.append({'op': 'CLASSIFY_FILE', 'rows': rng.random() < 0.5})
        elif r < 0.72:
            eop = {'op': 'ENGINE', 'id': engines, 'text': rng.randrange(len(ENGINE_TEXTS)), 'mode': rng.choice(['first_match', 'most_specific'])}
            if rng.random() < 0.5:
                eop['gen'] = gen_rules_text(rng)
            ops.append(eop)
            engines += 1
        elif r < 0.8 and engines:
            ops.append({'op': 'MATCH', 'id': rng.randrange(engines), 'txn': rng.randrange(len(TXNS)), 'rows': rng.random() < 0.6})
        elif r < 0.92:
            ops.append({'op': 'EVAL', 'expr': rng.randrange(len(EXPRS)), 'txn': rng.randrange(len(TXNS)), 'rows': rng.random() < 0.5})
        elif r < 0.97:
            ops.append({'op': 'FILTER', 'expr': rng.randrange(len(FILTERS)), 'm': rng.randrange(len(MERCHANT_TXNS))})
        elif r < 0.985:
            ops.append({'op': 'CLOCK', 'today': rng.choice(CLOCK_DAYS)})
        else:
            ops.append({'op': 'VIEWS', 'text': rng.randrange(len(VIEWS_TEXTS))})
    return ops


# ----------------------------------------------------------------------------- executing operations (inside a simulated process)

_ADDR = re.compile(r'0x[0-9a-fA-F]+')


_ROOT = [None]


def _exc(e):
    s = _ADDR.sub('0x?', str(e))
    if _ROOT[0]:
        s = s.replace(_ROOT[0], '<ROOT>')
    return ['exc', type(e).__name__, s]


def _txn(t):
    import datetime
    d = dict(t)
    y, m, dd = (int(x) for x in d['date'].split('-'))
    d['date'] = datetime.date(y, m, dd)
    if d['field'] is not None:
        d['field'] = dict(d['field'])
    return d


def _mtx(ts):
    import datetime
    out = []
    for t in ts:
        d = dict(t)
        y, m, dd = (int(x) for x in d['date'].split('-'))
        d['date'] = datetime.datetime(y, m, dd)
        d['tags'] = list(d['tags'])
        out.append(d)
    return out


def _canon_val(v):
    import datetime
    if isinstance(v, (set, frozenset)):
        return ['set'] + sorted((_canon_val(x) for x in v), key=repr)
    if isinstance(v, (list, tuple)):
        return [_canon_val(x) for x in v]
    if isinstance(v, dict):
        return {str(k): _canon_val(x) for k, x in sorted(v.items(), key=lambda kv: str(kv[0]))}
    if isinstance(v, (datetime.date, datetime.datetime)):
        return {'__date__': v.isoformat()}       # a date is not the string that spells it
    if isinstance(v, (str, int, float, bool)) or v is None:
        return v
    if hasattr(v, '__dataclass_fields__'):
        import dataclasses
        return {'__dc__': type(v).__name__, 'v': _canon_val(dataclasses.asdict(v))}
    if hasattr(v, '__next__'):
        return ['generator']
    return _ADDR.sub('0x?', repr(v))


def _canon_rules(rules):
    return [_canon_val(list(r)) for r in (rules or [])]


def _engine_struct(e):
    if e is None:
        return None
    return {'mode': e.match_mode, 'variables': _canon_val(e.variables), 'transforms': _canon_val(e.transforms),
            'rules': [[r.name, r.match_expr, r.category, r.subcategory, r.merchant, sorted(r.tags), r.priority,
                       _canon_val(r.let_bindings), _canon_val(r.fields), r.line_number] for r in e.rules]}


def _match_info(mi):
    if mi is None:
        return None
    d = dict(mi)
    if 'tags' in d:
        d['tags'] = sorted(d['tags'])
    return _canon_val(d)


def _match_result(r):
    return {'matched': r.matched, 'merchant': r.merchant, 'category': r.category, 'subcategory': r.subcategory,
            'tags': sorted(r.tags), 'matched_rule': r.matched_rule.name if r.matched_rule else None,
            'merchant_rule': r.merchant_rule.name if r.merchant_rule else None,
            'subcategory_rule': r.subcategory_rule.name if r.subcategory_rule else None,
            'all': [x.name for x in r.all_matching_rules], 'tag_rules': [x.name for x in r.tag_rules],
            'extra_fields': _canon_val(r.extra_fields), 'tag_sources': _canon_val(r.tag_sources)}


class State:
    def __init__(self):
        self.rules = []
        self.transforms = []
        self.engines = {}
        import datetime
        self.rows = {k: [dict(r) for r in v] for k, v in ROWS.items()}
        for rs in self.rows.values():
            for r in rs:
                try:
                    y, m, d = (int(x) for x in str(r.get('date', '')).split('-'))
                    r['date'] = datetime.date(y, m, d)
                except ValueError:
                    pass


def frame(st):
    """Everything classification must leave unchanged."""
    import ast
    from tally import merchant_utils as mu, expr_parser as ep
    cached = None
    try:
        cached = mu.get_cached_engine()
    except Exception:
        pass
    asts = {}
    cache = getattr(ep, '_expression_cache', None)
    if isinstance(cache, dict):
        for k, tree in sorted(cache.items()):
            try:
                asts[k] = ast.dump(tree)
            except Exception:
                asts[k] = '?'
    return {'rules': _canon_rules(st.rules), 'transforms': _canon_val(st.transforms),
            'cached_engine': _engine_struct(cached),
            'engines': {str(k): _engine_struct(e) for k, e in st.engines.items()},
            'rows': _canon_val(st.rows), 'asts': asts}


def abstract_state(st, last_load):
    from tally import merchant_utils as mu, expr_parser as ep
    src = getattr(mu, '_cached_engine_path', None)
    src = os.path.basename(src) if isinstance(src, str) else ('none' if getattr(mu, '_cached_engine', None) is None else 'set')
    cache = getattr(ep, '_expression_cache', {})
    mask = 0
    for j, e in enumerate(EXPRS + FILTERS):
        if e in cache:
            mask |= 1 << j
    return '%s|%s|%x' % (src, last_load, mask)


def do_op(st, op, ch, root):
    """Perform one operation; returns its canonical result."""
    from tally import merchant_utils as mu, expr_parser as ep, parsers, format_parser, merchant_engine as me, section_engine as se
    k = op['op']
    _ROOT[0] = os.path.realpath(root)
    if k == 'FILES':
        return ['files']
    if k == 'CLOCK':
        ch.set_today(op['today'])
        return ['clock', op['today']]
    if k == 'EDIT':
        if op.get('corrupt'):
            text = CORRUPT[op['path']]
        elif 'text' in op:
            text = op['text']
        else:
            text = EDITS[op['path']][op['version']]
        with proc._real_open(os.path.join(root, op['path']), 'w', encoding='utf-8') as f:
            f.write(text)
        return ['edited']
    if k == 'LOAD':
        path = op['path']
        full = os.path.join(root, path) if path else None
        if op.get('fault'):
            ch.reads = {path: op['fault']}
        try:
            try:
                if op.get('order') == 'transforms-first':
                    # the order tally up / explain / discover use
                    transforms = mu.get_transforms(full, match_mode=op['mode'])
                    rules = mu.get_all_rules(full, match_mode=op['mode'])
                else:
                    rules = mu.get_all_rules(full, match_mode=op['mode'])
                    transforms = mu.get_transforms(full, match_mode=op['mode'])
            finally:
                ch.reads = {}
        except Exception as e:   # a failed load is an outcome
            st.rules, st.transforms = [], []
            return _exc(e)
        st.rules, st.transforms = rules, transforms
        return ['loaded', _canon_rules(rules), _canon_val(transforms)]
    if k == 'CMD' and op.get('cwd'):
        # the command is started from inside the budget directory (config found from the working directory; `tally update` migrates ./config)
        here = os.getcwd()
        os.chdir(os.path.join(root, op['budget']))
        try:
            return run_main([a.replace('{cfg}', 'config').replace('{budget}', '.') for a in op['argv']], root)
        finally:
            os.chdir(here)
    if k == 'CMD':
        return run_main([a.replace('{cfg}', os.path.join(root, op['budget'], 'config')).replace('{budget}', os.path.join(root, op['budget']))
                         for a in op['argv']], root)
    rows = st.rows if op.get('rows') else None
    try:
        if k == 'CLASSIFY':
            t = _txn(TXNS[op['txn']])
            res = mu.normalize_merchant(t['description'], st.rules, amount=t['amount'], txn_date=t['date'], field=t['field'],
                                        data_source=t['source'], transforms=st.transforms if op.get('transforms') else None,
                                        data_sources=rows)
            return ['classified', res[0], res[1], res[2], _match_info(res[3])]
        if k == 'CLASSIFY_FILE':
            spec = format_parser.parse_format_string(STATEMENT_FMT)
            txns = parsers.parse_generic_csv(os.path.join(root, 'stmt.csv'), spec, st.rules, source_name='Card',
                                             transforms=st.transforms, data_sources=rows)
            return ['parsed', [[t['raw_description'], t['merchant'], t['category'], t['subcategory'], sorted(t['tags']),
                                t['amount'], _canon_val(t.get('extra_fields')), _canon_val(t.get('field')),
                                _match_info(t.get('match_info'))] for t in txns]]
        if k == 'ENGINE':
            e = me.parse_merchants(op.get('gen') or ENGINE_TEXTS[op['text']], match_mode=op['mode'])
            st.engines[op['id']] = e
            return ['engine', _engine_struct(e)]
        if k == 'MATCH':
            t = _txn(TXNS[op['txn']])
            before = _canon_val(t)
            r = st.engines[op['id']].match(t, data_sources=rows)
            after = _canon_val(t)
            return ['matched', _match_result(r), ['txn-unchanged', before == after]]
        if k == 'EVAL':
            t = _txn(TXNS[op['txn']])
            before = _canon_val(t)
            v = ep.evaluate_transaction(EXPRS[op['expr']], t, data_sources=rows)
            return ['value', _canon_val(v), ['txn-unchanged', before == _canon_val(t)]]
        if k == 'FILTER':
            ts = _mtx(MERCHANT_TXNS[op['m']])
            before = _canon_val(ts)
            v = ep.evaluate_filter(FILTERS[op['expr']], ts, num_months=3)
            return ['filter', bool(v), ['txns-unchanged', before == _canon_val(ts)]]
        if k == 'VIEWS':
            cfg = se.parse_sections(VIEWS_TEXTS[op['text']])
            groups = [{'merchant': 'm%d' % j, 'transactions': _mtx(ts)} for j, ts in enumerate(MERCHANT_TXNS)]
            res = se.classify_merchants(cfg, groups, num_months=3)
            return ['views', {name: [g['merchant'] for g in ms] for name, ms in res.items()}]
    except Exception as e:
        return _exc(e)
    raise ValueError(k)


def run_main(argv, root):
    """tally's console entry point, called in this (simulated) process; returns [tag, exit code, stdout, stderr]."""
    import io
    import json
    from tally import cli
    out, err = io.StringIO(), io.StringIO()
    old = sys.argv, sys.stdout, sys.stderr
    sys.argv = ['tally'] + argv
    sys.stdout, sys.stderr = out, err
    code = 0
    try:
        try:
            cli.main()
        except SystemExit as e:
            code = e.code if isinstance(e.code, int) else (0 if e.code is None else 1)
        except Exception as e:
            code = 'raised %s: %s' % (type(e).__name__, str(e)[:200])
    finally:
        sys.argv, sys.stdout, sys.stderr = old
    rr = os.path.realpath(root)
    o, e = out.getvalue().replace(rr, '<ROOT>'), err.getvalue().replace(rr, '<ROOT>')
    try:
        o = json.loads(o)
    except ValueError:
        pass
    return ['cmd', code, o, e]


def context_ops(ops, j):
    """The operations a fresh reference process performs for ops[j]: the most recent load (or
    failed load), the creation of the engine a MATCH refers to, then ops[j] itself."""
    op = ops[j]
    ctx = []
    L = None
    for i in range(j - 1, -1, -1):
        if ops[i]['op'] == 'LOAD':
            L = i
            break
    for i in range(j - 1, -1, -1):
        if ops[i]['op'] == 'CLOCK':
            ctx.append(i)        # the fresh process runs on the same day
            break
    if op['op'] == 'CMD':
        return sorted(ctx), None          # a command reads everything it needs itself
    if op['op'] != 'LOAD' and L is not None:
        ctx.append(L)
    if op['op'] == 'MATCH':
        for i in range(j - 1, -1, -1):
            if ops[i]['op'] == 'ENGINE' and ops[i]['id'] == op['id']:
                ctx.append(i)
                break
    return sorted(ctx), L


def files_at(ops, upto):
    """Rule directory content just before ops[upto] is performed."""
    files = dict(RULE_FILES)
    files['stmt.csv'] = STATEMENT
    for op in ops:
        if op['op'] == 'FILES':
            files.update(op['files'])
    for op in ops[:upto]:
        if op['op'] == 'EDIT':
            files[op['path']] = CORRUPT[op['path']] if op.get('corrupt') else op['text'] if 'text' in op else EDITS[op['path']][op['version']]
    return files


def run_history(ops, scratch):
    """Returns (S results, R results, frame violations, transitions, counts)."""
    root = os.path.join(scratch, 'S')
    ctlp = os.path.join(scratch, 'ctl')
    util.write_world(root, files_at(ops, 0))

    snapdir = os.path.join(scratch, 'snaps')
    cmd_seen = []

    def tree_delta(pre, post):
        # what the command did to the budget directories: which paths were created / deleted / changed, and - outside the report
        # directories - to what
        out = []
        for r_, kind in util.diff(pre, post):
            c = post.get(r_)
            inside_output = 'output' in r_.split('/')[:-1]
            out.append([r_, kind, '-' if (c is None or inside_output) else util.sha(c)])
        return out

    def copy_tree(src, dst):
        # with the un-interposed calls: this is the harness looking at the disk, not the simulated process acting on it
        for d, dirs, fs in os.walk(src):
            rel = os.path.relpath(d, src)
            tgt = dst if rel == '.' else os.path.join(dst, rel)
            try:
                proc._real_os['mkdir'](tgt)
            except FileExistsError:
                pass
            for f in fs:
                with proc._real_open(os.path.join(d, f), 'rb') as fi, proc._real_open(os.path.join(tgt, f), 'wb') as fo:
                    fo.write(fi.read())

    def s_main():
        st = State()
        out = []
        last_load = 'none'
        for j, op in enumerate(ops):
            if op['op'] == 'CMD':
                try:
                    proc._real_os['mkdir'](snapdir)
                except FileExistsError:
                    pass
                copy_tree(root, os.path.join(snapdir, str(j)))
                cmd_seen.append(j)
            a0 = abstract_state(st, last_load)
            need_frame = op['op'] in ('CLASSIFY', 'CLASSIFY_FILE', 'MATCH', 'EVAL', 'FILTER', 'VIEWS')
            f0 = frame(st) if need_frame else None
            res = do_op(st, op, CH[0], root)
            if op['op'] == 'CMD':
                copy_tree(root, os.path.join(snapdir, '%d.post' % j))
            f1 = frame(st) if need_frame else None
            changed = []
            if need_frame:
                for key in f0:
                    if key == 'asts':
                        # new entries may appear; existing trees must not change
                        for e, d in f0['asts'].items():
                            if f1['asts'].get(e, d) != d:
                                changed.append('ast:' + e)
                    elif f0[key] != f1[key]:
                        changed.append(key)
            if op['op'] == 'LOAD':
                last_load = ('fail-' if res[0] == 'exc' else '') + load_kind(op['path'])
            a1 = abstract_state(st, last_load)
            out.append({'res': res, 'frame_changed': changed, 'a0': a0, 'a1': a1})
        return out

    CH = [None]

    def target_s():
        return s_main()

    def run_in(world, fn):
        def target(ch):
            CH[0] = ch
            res = fn()
            fd = proc._real_os['open'](os.path.join(ch.ctl, 'result'), os.O_WRONLY | os.O_CREAT | os.O_TRUNC, 0o644)
            import json
            data = json.dumps(res, sort_keys=True, default=proc._default).encode('utf-8')
            while data:
                n = proc._real_os['write'](fd, data)
                data = data[n:]
            proc._real_os['close'](fd)
            return 0
        plan = {'net': 'down'}
        if any(o.get('stderr_broken') for o in ops[:1]):
            # nobody reads stderr: every write to it fails, in the long-lived process and in every reference process alike
            plan['stdout_fault'] = {'after_effect': -1, 'stream': 'stderr'}
        r = proc.spawn(world, plan, target, ctl_parent=ctlp, timeout=60)
        if r.exit != 0:
            raise proc.HarnessError('library-level simulated process failed: exit=%s err=%s' % (r.exit, r.err[-2000:]))
        return r.result

    s_out = run_in(root, target_s)
    r_out = []
    rroot = os.path.join(scratch, 'R')
    epoch = None
    for j, op in enumerate(ops):
        if op['op'] in ('EDIT', 'FILES', 'CLOCK'):
            r_out.append(None)
            continue
        ctx, L = context_ops(ops, j)
        at = j if op['op'] in ('LOAD', 'CMD') else (L if L is not None else 0)
        if op['op'] == 'CMD':
            # the tree as the long-lived process found it just before this command (earlier commands may have migrated, initialised, written reports)
            util.restore(rroot, util.snapshot(os.path.join(snapdir, str(j))))
            epoch = None
        elif epoch != at or op['op'] == 'LOAD':
            util.write_world(rroot, files_at(ops, at))
            epoch = at

        def r_main(ctx=ctx, j=j):
            st = State()
            res = None
            for i in ctx + [j]:
                res = do_op(st, ops[i], CH[0], rroot)
            return res
        res_r = run_in(rroot, r_main)
        if op['op'] == 'CMD':
            pre = util.snapshot(os.path.join(snapdir, str(j)))
            res_r = res_r + [['tree', tree_delta(pre, util.snapshot(rroot))]]
            s_out[j]['res'] = s_out[j]['res'] + [['tree', tree_delta(pre, util.snapshot(os.path.join(snapdir, '%d.post' % j)))]]
        r_out.append(res_r)
    return s_out, r_out


def load_class(ops, j):
    """Abstract description of the loads before ops[j]: class of the most recent one, and whether
    an earlier .rules load had succeeded (which is what could leave a stale engine behind)."""
    bad = set(['d.rules'])
    last = 'never'
    earlier_rules = False
    cur_bad = set(bad)
    seen_ok_rules = False
    for op in ops[:j]:
        if op['op'] == 'EDIT':
            if op.get('corrupt'):
                cur_bad.add(op['path'])
            else:
                cur_bad.discard(op['path'])
        elif op['op'] == 'LOAD':
            earlier_rules = seen_ok_rules
            k = load_kind(op['path'])
            if op.get('fault'):
                last = 'fault-' + k
            elif k == 'rules' and op['path'] in cur_bad:
                last = 'rules-invalid'
            else:
                last = k
                if k == 'rules':
                    seen_ok_rules = True
    return last, earlier_rules


def op_label(op):
    k = op['op']
    if k == 'EVAL':
        return 'EVAL ' + EXPRS[op['expr']]
    if k == 'FILTER':
        return 'FILTER ' + FILTERS[op['expr']]
    if k == 'LOAD':
        return 'LOAD %s%s' % (op['path'], ' under ' + str(op['fault']) if op.get('fault') else '')
    if k in ('CLASSIFY', 'MATCH'):
        return '%s %s' % (k, TXNS[op['txn']]['description'])
    if k == 'CLOCK':
        return 'CLOCK ' + op['today']
    if k == 'CMD':
        return 'tally ' + ' '.join(a.replace('{cfg}', op['budget'] + '/config').replace('{budget}', op['budget']) for a in op['argv'])
    return k


def execute(ops, scratch, seed=None, i=None):
    try:
        s_out, r_out = run_history(ops, scratch)
    finally:
        shutil.rmtree(scratch, ignore_errors=True)
    violations = []
    sets = {'transitions': set(), 'op_pairs': set()}
    count = {'histories': 1, 'operations': 0, 'reference_processes': 0}
    prev = None
    for j, op in enumerate(ops):
        s = s_out[j]
        sets['transitions'].add('%s|%s|%s' % (s['a0'], op['op'], s['a1']))
        if prev:
            sets['op_pairs'].add(prev + '>' + op['op'])
        prev = op['op']
        count['operations'] += 1
        count['op.' + op['op']] = count.get('op.' + op['op'], 0) + 1
        if op['op'] == 'LOAD' and s['res'][0] == 'exc':
            count['failed_loads'] = count.get('failed_loads', 0) + 1
        if op.get('fault'):
            count['fired.read-fault'] = count.get('fired.read-fault', 0) + 1
        if op.get('corrupt'):
            count['fired.corrupt-at-rest'] = count.get('fired.corrupt-at-rest', 0) + 1
        if op['op'] == 'CLOCK':
            count['fired.clock-jump'] = count.get('fired.clock-jump', 0) + 1
        if r_out[j] is None:
            continue
        count['reference_processes'] += 1
        sched = {'property': ID, 'seed': seed, 'run': i, 'ops': ops}
        if util.canon(s['res']) != util.canon(r_out[j]):
            if op['op'] == 'CMD':
                before = [o['budget'] for o in ops[:j] if o['op'] == 'CMD']
                sig = {'op': 'CMD', 'command': op['argv'][0], 'budget': op['budget'], 'previous_budget': before[-1] if before else 'none'}
            else:
                sig = dict(zip(('last_load', 'earlier_rules_load'), load_class(ops, j)),
                           op='classify' if op['op'].startswith('CLASSIFY') else op['op'])
                if any(o['op'] == 'CLOCK' for o in ops[:j]):
                    sig['clock_moved'] = True
            violations.append({
                'invariant': 'EQ',
                'signature': sig,
                'witness': 'op %d/%d `%s`: in the long-lived process -> %s ; in a fresh process after only the most recent load -> %s'
                           % (j + 1, len(ops), op_label(op), util.canon(s['res'])[:300], util.canon(r_out[j])[:300]),
                'schedule': sched})
        if s['frame_changed']:
            violations.append({
                'invariant': 'FRAME',
                'signature': {'op': op['op'], 'changed': sorted(x.split(':')[0] for x in s['frame_changed'])[0]},
                'witness': 'op %d/%d `%s` changed %r' % (j + 1, len(ops), op_label(op), s['frame_changed'][:5]),
                'schedule': sched})
        for flag in (s['res'][-1],) if isinstance(s['res'][-1], list) and s['res'][-1] and str(s['res'][-1][0]).endswith('unchanged') else ():
            if flag[1] is False:
                violations.append({
                    'invariant': 'FRAME', 'signature': {'op': op['op'], 'changed': 'transaction'},
                    'witness': 'op %d/%d `%s` modified the transaction it was given' % (j + 1, len(ops), op_label(op)),
                    'schedule': sched})
    dig = util.digest([ops, s_out, r_out])
    for v in violations:
        v['digest'] = dig
    return {'violations': violations, 'count': count, 'sets': {k: sorted(v) for k, v in sets.items()}, 'samples': [], 'digest': dig}


def run_one(seed, i, tier, scratch):
    rng = util.rng_for(seed, ID, i)
    ops = gen_history(rng, tier, i)
    for op in ops:
        if op['op'] == 'LOAD':
            op['order'] = rng.choice(['transforms-first', 'transforms-first', 'rules-first'])
    if rng.random() < 0.12 and ops:
        ops[0] = dict(ops[0], stderr_broken=True)
    res = execute(ops, scratch, seed, i)
    if i < 2:
        res['samples'] = [{'seed': seed, 'run': i, 'history': [op_label(o) if o['op'] not in ('EDIT', 'FILES') else '%s %s' % (o['op'], o.get('path', '')) for o in ops]}]
    return res


def replay(schedule, scratch):
    res = execute(schedule['ops'], scratch, schedule.get('seed'), schedule.get('run'))
    return {'violations': res['violations'], 'digest': res['digest']}


def shrink_candidates(schedule):
    ops = schedule['ops']
    n = len(ops)
    chunk = max(1, n // 2)
    while chunk >= 1:
        for a in range(0, n, chunk):
            new = ops[:a] + ops[a + chunk:]
            if new and _valid(new):
                yield dict(schedule, ops=new)
        if chunk == 1:
            break
        chunk //= 2


def _valid(ops):
    if any(o['op'] == 'FILES' for o in ops) != True and any(str(o.get('path') or '').startswith('g') for o in ops):
        return False
    if any(o['op'] == 'CMD' for o in ops) and not any(o['op'] == 'FILES' for o in ops):
        return False
    made = set()
    for op in ops:
        if op['op'] == 'ENGINE':
            made.add(op['id'])
        if op['op'] == 'MATCH' and op['id'] not in made:
            return False
    return True


def coverage(count, sets, samples, tier):
    return {
        'evaluations': count.get('operations', 0),
        'distinct_nontrivial': len(sets.get('transitions', ())),
        'rule': RULE,
        'samples': samples,
        'histories': count.get('histories', 0),
        'reference_processes': count.get('reference_processes', 0),
        'operations_by_kind': {k[3:]: v for k, v in count.items() if k.startswith('op.')},
        'failed_loads': count.get('failed_loads', 0),
        'faults_fired': {k[6:]: v for k, v in count.items() if k.startswith('fired.')},
        'distinct_transitions': len(sets.get('transitions', ())),
        'distinct_operation_pairs': len(sets.get('op_pairs', ())),
    }
