"""C08 - a rule that fails to evaluate is skipped; it never aborts classification.

exploration (partial): the failure of one expression for one item is (a) injected at the
evaluation boundary as ExpressionError, or (b) natural - an ill-typed / partial expression whose
failure is *determined* by evaluating it alone through tally's own evaluator.  Oracle: the call
returns normally, nothing is lost, and the item's result equals the fault-free result of the same
file with the failing rule / tag / field / variable / transform / view removed for that item.
See DESIGN.md 5.6.
"""
import copy
import os
import re
import shutil

from .. import proc, util
from ..models import rulesfile as rf

ID = 'C08'
LEVEL = 'exploration'
COMPONENTS = {
    'real': ['tally.merchant_engine.MerchantEngine.match', 'tally.merchant_utils.get_all_rules / get_transforms / normalize_merchant (engine and legacy paths)',
             'tally.parsers.parse_generic_csv', 'tally.section_engine.parse_sections / classify_merchants', 'tally.expr_parser evaluators',
             '`tally up --format json -v` through tally.cli.main() as a simulated process'],
    'stub': ['the failure of one (expression, item) evaluation (ExpressionError raised by the wrapped evaluator entry point)'],
    'not_executed': ['spending_report.js'],
}
ASSUMPTIONS = [
    'only ExpressionError is injected: it is the one exception every call site is contractually prepared for, and any expression can raise it',
    'whether a natural (expression, item) pair fails is determined by evaluating the expression alone on the item with tally\'s evaluator: raises anything = cannot be evaluated',
    'natural failing expressions are self-contained (no variables / let bindings), so that determination does not depend on engine context',
    'for a failing let: or view variable both readings are accepted (binding absent / bound to None); only completion and the neutrality of other rules are asserted',
]
RULE = ('a rules or views file is generated with one failing expression site (match, let, top-level variable, field:, dynamic tag, transform, legacy '
        'expression pattern, legacy dynamic tag, view filter, view variable), the failure being injected or natural; 3-6 items are classified through '
        'MerchantEngine.match, normalize_merchant, parse_generic_csv (whole statement; one case in ten repeats the items to 140-300 rows, and a sample '
        'of rows is also read as one-row statements in fresh processes) , classify_merchants and one `tally up` (rules and legacy CSV budgets; the '
        'report must contain every row, filed as the library call filed it), on a pinned day drawn from a set with both leap days; legacy patterns '
        'carry [date:lastNdays] / [month=N] modifiers.  distinct_nontrivial counts distinct '
        '(site, injected|natural failure class, position of the failing rule relative to the winner: before/winner/after/none) tuples that fired.')

# they bind a walrus / loop name that other rules read as a primitive, variable or let binding - and then fail
BINDING_TXN = ['(amount := description) > 5', '(is_large := 5) and field.nosuch == 1', '(lv := 1) and description + 1 == 2',
               'len([month for month in orders if month.item + 1]) > 0', 'any(description.nosuch for description in orders)',
               '(source := 7) and contains(source)', 'next(amount for amount in orders if amount.nosuch)',
               '(big := "x") and big > 5']
NATURAL_TXN = [
    'amount > "100"', 'contains(5)', 'len(amount) > 1', 'description + 1', 'abs(description) > 1', 'date > 5',
    'regex("(")', 'regex_replace(description, "(", "") == "x"', 'field.nosuch == "x"', 'nosuchvar > 1',
    'next(r for r in orders if r.amount == -1).item == "x"', '[r for r in orders][5].item == "x"',
    'max([r.amount for r in orders if r.amount < 0]) > 1', 'split(description, " ", "x") == "a"',
    'substring(description, "a", 2) == "x"', 'amount / "2" > 1', 'extract(5) == "x"', 'contains("A", "B", "C")',
    'field.kind > 5', 'amount > 100 and description + 1', '"x" in amount', '-description > 1', 'startswith(7)',
    'fuzzy("NETFLIX", "high")', 'normalized(3)', 'anyof(1, 2)', 'description.lower(1)', 'sum(amount) > 1',
    'min(description, 3) > 1', 'round(description) > 1', 'any(amount)', 'month == "1" and month > "1"',
    'amount > 50 and contains(5)', 'txn.nosuch == 1', 'date >= "2025-13-45"', 'orders[0].nosuch == 1', 'not (amount < "5")',
]
LAZY_VALUE = ['(r.item for r in orders if r.amount == txn.amount)', '(r.nosuch for r in orders)', '(r.item + 1 for r in orders)',
              '(x for x in amount)']
NATURAL_VALUE = ['amount[0]', 'orders["a"]', 'month[0]', 'orders[0].amount[0]', '-description', '1 if amount > "x" else 2', 'description[99]',
                 'amount + "x"', 'split(description, " ", 99.5)', 'description + 1', 'field.nosuch', 'uppercase()', 'extract("(")',
                 'regex_replace(description, "(", "")', 'next(r.item for r in orders if r.amount < 0)', 'orders[9].item', 'trim(1, 2)']
NATURAL_VIEW = ['total[0]', 'tags["a"]', '-category', '1 if total > "x" else 0', 'not tags + 1', 'nosuch', 'total > "x"', 'category + 1 > 2', 'sum(payments) / "2" > 1', 'nosuch > 1', 'stddev(5) > 1', 'by("nosuchfield")',
                'months > "3"', '"fun" in total', 'tags + 1', 'sum(5) > 1', 'max(by("month")) > "1"', 'avg("x") > 1', 'cv > "0.3"',
                'count(3) > 1', 'total > 100 and tags + 1', 'round(category) > 1', 'abs(merchant) > 1', 'period(5) > 1', 'min_val("a", 1) > 0']
# the same expressions grouped by what the evaluation raises underneath: handlers that look at the exception object
# (its type, message, args, __cause__) must cope with every one of them
BY_CLASS = {
    'TypeError': ['amount > "100"', 'len(amount) > 1', 'description + 1', 'abs(description) > 1', '"x" in amount', '-description > 1'],
    'AttributeError': ['contains(5)', 'startswith(7)', 'normalized(3)', 'anyof(1, 2)'],
    'StopIteration': ['next(r for r in orders if r.amount == -1).item == "x"', 'next(c for c in description if c == "#") == "#"',
                      'next(r.item for r in orders if r.amount < 0) == "x"'],
    'ValueError': ['max([r.amount for r in orders if r.amount < 0]) > 1', 'min([r.amount for r in orders if r.amount < 0]) > 1'],
    'IndexError': ['[r for r in orders][5].item == "x"', 'orders[9].item == "x"'],
    'KeyError': ['orders[0]["nosuch"] == 1'],
    're.error': ['regex("(")', 'regex_replace(description, "(", "") == "x"', 'extract("(") == "x"'],
    'arity': ['contains("A", "B", "C")', 'any(contains("UBER"), contains("LYFT"))', 'description.lower(1)', 'substring(description, 0, amount) == "x"',
              'split(description, " ", "x") == "a"', 'exists(field.a, field.b)', 'len(1, 2) > 0'],
    'unknown-name': ['nosuchvar > 1', 'field.nosuch == "x"', 'txn.nosuch == 1', 'nosuchfn(1)', 'orders[0].nosuch == 1'],
    'bad-date': ['date >= "2025-13-45"', 'date == "yesterday"'],
    # the failure is raised by the *outermost* node of the expression, one per node kind the language has (an evaluator that
    # treats some node kinds as "cannot fail" and dispatches them outside its conversion is found by these only)
    'root-node': ['amount[0]', 'description["x"]', 'orders["a"]', 'date[0]', 'month[0]', 'orders[0].amount[0]', 'txn.amount[0]',
                  'description[1.5]', 'orders[amount]', 'amount.real', '1 if amount[0] else 2', '-description',
                  'not description + 1', 'nosuchvar', '[r.nosuch for r in orders]', 'orders[0].item[9]', 'description[99]'],
    'ZeroDivision-like': ['amount / "2" > 1', 'sum(amount) > 1', 'round(description) > 1'],
    # expressions that first bind a name other rules read (walrus, loop variable) and then fail
    'binds-then-fails': list(BINDING_TXN),
    # expressions that exhaust the interpreter's recursion limit when evaluated (a long operator chain: the loader accepts them)
    'too-deep': ['amount == ' + ' + '.join(['0.20'] * 700), ' or '.join(['contains("ZZ%d")' % k_ for k_ in range(400)]) + ' or amount == ' + ' + '.join(['1'] * 600),
                 'amount > ' + ' - '.join(['1000'] * 650)],
    # syntax outside the language: rejected when the file is loaded wherever expressions are checked at load; a {tag} expression is
    # only checked when it is evaluated, where it must be one more expression that cannot be evaluated (one entry per node kind,
    # operators included - operator nodes carry no position)
    'disallowed-syntax': ['round(amount) // 10 == 1', 'amount ** 2 > 4', 'amount | 1 > 0', 'amount & 1 > 0', '~1 == -2', 'amount is None',
                          '+amount > 0', 'description[0:6] == "x"', 'lambda: 1', '("a", "b") == 1',
                          '[*orders] == 1', 'amount << 1 > 0', 'amount ^ 1 > 0', 'amount is not None', 'amount @ 2 > 0'],     # (no braces: inside a {tag} they would end it)
}
SITES_RULES = ['match', 'let', 'variable', 'field', 'tag', 'transform']
SITES_LEGACY = ['legacy-pattern', 'legacy-tag']
SITES_VIEWS = ['view-filter', 'view-variable']
ROWS = {'orders': [{'amount': 25.0, 'item': 'Dinner'}, {'amount': 12.0, 'item': 'Beans'}]}


def runs(tier):
    return 240 if tier == 'quick' else 9000


# ----------------------------------------------------------------------------- generation

def gen_items(rng):
    from ..models.statement import WORDS
    items = []
    for k in range(rng.randint(3, 6)):
        w = rng.choice(WORDS[:8])
        items.append({'id': k + 1, 'description': '%s%s r%d' % (w, rng.choice(['', ' STORE', '.COM']), k + 1),
                      'amount': rng.choice([4.5, 15.99, 25.0, 120.0, 700.0, -15.99, 12.0]),
                      'date': '2025-%02d-%02d' % (rng.randint(1, 12), rng.randint(1, 28)),
                      'field': rng.choice([None, {'kind': 'ACH'}, {'kind': 'POS'}]), 'source': rng.choice(['Card', 'Bank'])})
    return items


STRATA = [(site_, cls_) for cls_ in sorted(BY_CLASS) for site_ in SITES_RULES[:5]]


def gen_case(rng, tier, i=None):
    items = gen_items(rng)
    words = sorted({it['description'].split()[0].split('.')[0] for it in items})
    family = rng.choice(['rules', 'rules', 'rules', 'legacy', 'views'])
    injected = rng.random() < 0.45
    forced = forced_value = None
    if i is not None and i % 3 == 0:
        # every third run is drawn from the grid (site x what the failing evaluation raises underneath), in order: whatever the
        # seed, a batch of 180 runs has met every cell
        family, injected = 'rules', False
        forced = STRATA[(i // 3) % len(STRATA)]
    elif i is not None and i % 30 == 1:
        # one more cell, outside the grid: a transform whose pattern cannot be compiled, in front of a transform that is fine,
        # over a long statement
        family, injected = 'rules', False
        forced = ('transform', 're.error')
    elif i is not None and i % 7 == 5:
        # the runs whose interpreter ignores assert statements (driver.run_environment: `python -O`) walk through the expressions
        # that fail while producing a *value*, at the two sites that keep the value - what stands in for a failed evaluation
        # must not be a value
        family, injected = 'rules', False
        forced_value = (('let', 'field')[(i // 7) % 2], NATURAL_VALUE[(i // 14) % len(NATURAL_VALUE)])
    case = {'family': family, 'injected': injected, 'items': items, 'mode': rng.choice(['first_match', 'first_match', 'most_specific']),
            'failing': [], 'eval_faults': [],
            # the budget `tally up` runs on has the supplemental `orders` source the rules query; in a third of the cases it cannot be
            # loaded (absent, empty, unreadable): then every rule that reads it is one more rule that cannot be evaluated
            'orders_source': rng.choice(['ok', 'ok', 'ok', 'ok', 'absent', 'empty', 'EACCES', 'header-only']),
            # nobody reads stderr (closed terminal, `2>&1 | head`, full disk behind 2>log): every write to it fails - a failing rule is
            # still just a failing rule
            'stderr_broken': rng.random() < 0.15,
            # the day the command runs (relative-date rules read the calendar; both leap days are days like any other)
            'today': rng.choice(['2025-06-15', '2025-06-15', '2025-12-31', '2026-01-01', '2024-02-29', '2028-02-29', '2025-02-28']),
            # now and then the statement is long: the items repeated under fresh row ids (what a failed evaluation leaves behind
            # must not build up over a few hundred rows)
            'big': rng.randint(140, 300) if rng.random() < 0.1 else 0}
    if forced and forced[0] in ('match', 'tag', 'transform') and forced[1] in ('re.error', 'unknown-name', 'TypeError'):
        case['big'] = rng.randint(140, 300)     # these cells of the grid always come with a long statement
    if family == 'rules':
        site = rng.choice(SITES_RULES)
        if forced:
            site = forced[0]
            if forced[1] == 'disallowed-syntax':
                site = 'tag'      # the one place where such text gets past the loader
        m = rf.gen_rules_model(rng, rng.randint(2, 5), fields=(), sources=('Card', 'Bank'), simple=False, supplemental=None)
        for r in m['rules']:
            # biased towards matching the items
            if rng.random() < 0.7:
                r['match'] = 'contains("%s")' % rng.choice(words) + rng.choice(['', '', ' and amount > 10', ' or amount > 500'])
            r['tags'] = [t for t in r['tags'] if not t.startswith('{')]
        m['variables'] = [['is_large', 'amount > 100']] if rng.random() < 0.5 else []
        m['transforms'] = [['field.description', 'strip_prefix(field.description, "SQ *")']] if rng.random() < 0.4 else []
        if rng.random() < 0.4:
            # a transform that assigns a *custom* field (sources without custom columns have no field dict at all)
            m['transforms'] = m['transforms'] + [[rng.choice(['field.ref', 'field.kind']), rng.choice(['extract("r(\\d+)")', 'uppercase(description)'])]]
        k = rng.randrange(len(m['rules']))
        r = m['rules'][k]
        good_value = rng.choice(['uppercase(description)', 'amount * 2', 'extract("r(\\\\d+)")'])
        bad = rng.choice(NATURAL_TXN) if site in ('match', 'variable') else rng.choice(NATURAL_VALUE + NATURAL_TXN[:6])
        if rng.random() < 0.5:
            bad = rng.choice(BY_CLASS[rng.choice(sorted(BY_CLASS))])
            if site not in ('match', 'variable', 'let'):
                bad = bad.split(' == ')[0].split(' > ')[0] if rng.random() < 0.5 else bad
        if rng.random() < 0.35:
            bad = rng.choice(BINDING_TXN)
        if forced:
            bad = rng.choice(BY_CLASS[forced[1]])
            if forced[1] in ('disallowed-syntax', 'binds-then-fails'):
                bad = BY_CLASS[forced[1]][(i // 3) % len(BY_CLASS[forced[1]])]
            if site not in ('match', 'variable', 'let') and rng.random() < 0.5:
                bad = bad.split(' == ')[0].split(' > ')[0]
        if forced_value:
            site, bad = forced_value
            # ... in a rule that comes first and does match a row, so that the value is asked for
            r['match'] = 'contains("%s")' % words[(i // 7) % len(words)]
            m['rules'].remove(r)
            m['rules'].insert(0, r)
            k = 0
            if not r['category']:
                r['category'], r['subcategory'] = 'Misc', 'Other'
        if site == 'match':
            expr = r['match'] if injected else bad
            r['match'] = expr
            if forced and forced[1] not in ('binds-then-fails', 'too-deep', 'disallowed-syntax') and len(BY_CLASS[forced[1]]) > 1:
                # the other members of the class too, as further rules of their own: what a handler does with one failure
                # (its type, its message, its arguments) it must be able to do with each of them
                others = [e_ for e_ in BY_CLASS[forced[1]] if e_ != expr]
                rng.shuffle(others)
                case['more_exprs'] = others[:3]
                for n_, e_ in enumerate(case['more_exprs']):
                    m['rules'].insert(rng.randint(0, len(m['rules'])), {
                        'name': 'Also Failing %d' % n_, 'match': e_, 'category': 'Misc', 'subcategory': 'Other', 'merchant': '', 'tags': [],
                        'priority': None, 'lets': [], 'fields': []})
                k = m['rules'].index(r)
            if expr in BINDING_TXN:
                # the failing rule goes first; rules after it read the names it bound before failing
                m['rules'].remove(r)
                m['rules'].insert(0, r)
                k = 0
                readers = {'amount': 'amount > 10', 'is_large': 'is_large or amount > 1', 'lv': 'amount > 1', 'month': 'month >= 1',
                           'description': 'contains(description)', 'source': 'source == "Card" or source == "Bank"', 'big': 'amount > 10'}
                bound = [n_ for n_ in readers if re.search(r'\b%s\b' % n_, expr.split(')')[0].split(' in ')[0] + ' ' + expr[:30])]
                for other in m['rules'][1:]:
                    if forced and forced[1] == 'binds-then-fails' and bound:
                        other['match'] = readers[bound[0]]       # every later rule reads exactly the name the failing one bound
                    elif rng.random() < 0.6:
                        other['match'] = rng.choice(['amount > 10', 'contains("%s") and amount > 1' % rng.choice(words), 'month >= 1',
                                                     'source == "Card" or source == "Bank"', 'contains(description)'])
        elif site == 'let':
            expr = 'amount * 2' if injected else bad
            r['lets'] = [['lv', expr]]
            r['match'] = rng.choice(['(%s) and (lv or not lv)', '%s', '(%s) and not lv', '(%s) or lv']) % r['match']
            if rng.random() < 0.5:
                # a sibling binding that evaluates fine and does not *use* the failing one (its text may well contain the
                # name, in a string or as part of another word): "just that binding" is inapplicable, the sibling keeps
                # its value, whichever way the rule reads it
                sib = ['sib', rng.choice(['not contains("LV 99")', 'len("lv") == 2', 'amount == amount or "lv" == description',
                                          'not startswith("lv")', 'amount != 0 or silver'])]
                r['lets'] = [sib] + r['lets'] if rng.random() < 0.3 else r['lets'] + [sib]
                r['match'] = rng.choice(['(%s) and sib', '(%s) and not sib', '(%s) or not sib']) % r['match']
        elif site == 'variable':
            expr = 'amount > 100' if injected else bad
            m['variables'] = [['is_large', expr]]
            # the variable is used positively, negatively, by (in)equality, or only copied into a field
            use = rng.choice(['or', 'and-not', 'or-not', 'ne', 'eq-none', 'field', 'none'])
            if use == 'or':
                r['match'] = '(%s) or is_large' % r['match']
            elif use == 'and-not':
                r['match'] = '(%s) and not is_large' % r['match']
            elif use == 'or-not':
                r['match'] = '(%s) or not is_large' % r['match']
            elif use == 'ne':
                r['match'] = '(%s) and is_large != True' % r['match']
            elif use == 'eq-none':
                r['match'] = '(%s) or is_large == None' % r['match']
            elif use == 'field':
                r['fields'] = [['flag', 'is_large']]
                if not r['category']:
                    r['category'], r['subcategory'] = 'Misc', 'Other'
        elif site == 'field':
            expr = good_value if injected else bad
            r['fields'] = [['note', expr]]
            if rng.random() < 0.35:
                # the field carries the name of one of the rule's own bindings (or of a file-level variable): when its expression
                # cannot be evaluated the field is absent - it does not fall back to whatever else goes by that name
                if rng.random() < 0.5:
                    r['lets'] = [['note', rng.choice(['amount * 2', '[r for r in orders if r.amount > 0]', 'uppercase(description)'])]] + r['lets']
                else:
                    m['variables'] = m['variables'] + [['note', rng.choice(['amount > 1', 'len(orders)'])]]
            if rng.random() < 0.3:
                # a field whose value is a lazy generator (its body may fail only when something consumes it)
                r['fields'].append(['lazy', rng.choice(LAZY_VALUE)])
            if not r['category']:
                r['category'], r['subcategory'] = 'Misc', 'Other'
        elif site == 'tag':
            expr = rng.choice(['field.kind', 'source', 'lowercase(description)']) if injected else bad
            r['tags'] = r['tags'] + ['{%s}' % expr]
        else:
            expr = 'strip_prefix(field.description, "SQ *")' if injected else rng.choice(['regex_replace(field.description, "(", "")', 'field.description + 1', 'field.nosuch', 'uppercase()'])
            if forced and forced[0] == 'transform':
                expr = 'regex_replace(field.description, "(", "")'
            m['transforms'] = [[rng.choice(['field.description', 'field.description', 'field.ref']), expr]] + ([['field.description', 'regex_replace(field.description, "\\\\s+STORE", "")']] if rng.random() < 0.5 or (forced and forced[0] == 'transform') else [])
        case.update({'site': site, 'model': m, 'expr': expr, 'rule_index': k})
    elif family == 'legacy':
        site = rng.choice(SITES_LEGACY)
        rows = []
        for _ in range(rng.randint(2, 4)):
            w = rng.choice(words)
            cat, sub = rng.choice(rf.CATS)
            rows.append({'pattern': rng.choice(['contains("%s")' % w, w, 'contains("%s") and amount > 10' % w, '%s.*r' % w[:3],
                                                '%s[date:last%ddays]' % (w, rng.choice([30, 365, 366, 730, 1461])), '%s[month=%d]' % (w, rng.randint(1, 12))]),
                         'merchant': w.title() + ' L', 'category': cat, 'subcategory': sub, 'tags': rng.sample(['fun', 'biz'], rng.randint(0, 1))})
        k = rng.randrange(len(rows))
        if site == 'legacy-pattern':
            good = 'contains("%s") and amount > 1' % rng.choice(words)
            expr = good if injected else rng.choice([e for e in NATURAL_TXN if re.match(r'^(contains|regex|amount|field\.|description|startswith|extract|split|substring|normalized|anyof|fuzzy)', e) or ' and ' in e])
            rows[k]['pattern'] = expr
        else:
            expr = rng.choice(['field.kind', 'source']) if injected else rng.choice(['description + 1', 'field.nosuch', 'amount + "x"', 'uppercase()'])
            rows[k]['tags'] = rows[k]['tags'] + ['{%s}' % expr]
        case.update({'site': site, 'csv_rows': rows, 'expr': expr, 'rule_index': k})
    else:
        site = rng.choice(SITES_VIEWS)
        vm = rf.gen_views_model(rng, rng.randint(2, 4), simple=True)
        k = rng.randrange(len(vm['views']))
        if site == 'view-filter':
            expr = vm['views'][k]['filter'] if injected else rng.choice(NATURAL_VIEW)
            vm['views'][k]['filter'] = expr
        else:
            expr = 'sum(payments) / 2' if injected else rng.choice(NATURAL_VIEW)
            r_scope = rng.random()
            if r_scope < 0.3 and len(vm['views']) > 1:
                # a view overrides a file-level variable for itself - with an expression that cannot be evaluated; the views after it
                # read the file-level value
                vm['globals'] = [['floor', rng.choice(['50', '500'])]]
                vm['views'][k]['vars'] = [['floor', expr]]
                vm['views'][k]['filter'] = '(%s) and (floor or not floor)' % vm['views'][k]['filter']
                for v_ in vm['views'][k + 1:] + vm['views'][:k][:1]:
                    v_['filter'] = 'total > floor'
                case['var_scope'] = 'local'
            elif r_scope < 0.6:
                vm['views'][k]['vars'] = [['vv', expr]]
                vm['views'][k]['filter'] = '(%s) and (vv or not vv)' % vm['views'][k]['filter']
                case['var_scope'] = 'local'
            else:
                vm['globals'] = [['gv', expr]]
                vm['views'][k]['filter'] = '(%s) or gv' % vm['views'][k]['filter']
                case['var_scope'] = 'global'
                for v_ in vm['views']:
                    if v_ is not vm['views'][k] and rng.random() < 0.6:
                        # other views have (working) variables of their own and never mention gv
                        v_['vars'] = [['half', 'total / 2']]
                        v_['filter'] = '(%s) and (half >= 0 or half < 0)' % v_['filter']
        merchants = []
        for j in range(rng.randint(2, 4)):
            cat, sub = rng.choice(rf.CATS)
            txs = [{'amount': rng.choice([5.0, 60.0, 400.0, 1500.0]), 'date': '2025-%02d-15' % rng.randint(1, 4), 'category': cat,
                    'subcategory': sub, 'merchant': 'M%d' % j, 'tags': rng.sample(rf.TAGS[:4], rng.randint(0, 2))} for _ in range(rng.randint(1, 3))]
            merchants.append({'merchant': 'M%d' % j, 'category': cat, 'subcategory': sub, 'transactions': txs})
        case.update({'site': site, 'views_model': vm, 'expr': expr, 'view_index': k, 'merchants': merchants})
    if injected:
        ids = [m['merchant'] for m in case['merchants']] if family == 'views' else [it['id'] for it in items]
        chosen = rng.sample(ids, rng.randint(1, len(ids)))
        case['eval_faults'] = [[case['expr'], c] for c in chosen]
    return case


# ----------------------------------------------------------------------------- inside simulated processes

def _txn(it):
    import datetime
    d = {'description': it['description'], 'amount': it['amount'], 'field': dict(it['field']) if it['field'] is not None else None,
         'source': it['source']}
    y, m, dd = (int(x) for x in it['date'].split('-'))
    d['date'] = datetime.date(y, m, dd)
    return d


def _mtx(ts):
    import datetime
    out = []
    for t in ts:
        d = dict(t)
        y, m, dd = (int(x) for x in d['date'].split('-'))
        d['date'] = datetime.datetime(y, m, dd)
        d['tags'] = list(d['tags'])
        out.append(d)
    return out


def _cv(v):
    import datetime
    if isinstance(v, (set, frozenset)):
        return sorted((_cv(x) for x in v), key=repr)
    if isinstance(v, (list, tuple)):
        return [_cv(x) for x in v]
    if isinstance(v, dict):
        return {str(k): _cv(x) for k, x in v.items()}
    if isinstance(v, (datetime.date, datetime.datetime)):
        return v.isoformat()
    if isinstance(v, (str, int, float, bool)) or v is None:
        return v
    return re.sub(r'0x[0-9a-f]+', '0x?', repr(v))


def fails_alone(kind, expr, item, merchants=None):
    """Determination: does this expression raise anything when evaluated alone on this item?"""
    from tally import expr_parser as ep
    try:
        if kind == 'txn':
            ep.evaluate_transaction(expr, _txn(item), data_sources=ROWS)   # a generator result is a result: the engine does not consume it
        else:
            ts = _mtx(item['transactions'])
            months = {t['date'].strftime('%Y-%m') for m in merchants for t in _mtx(m['transactions'])}
            years = {t['date'].year for m in merchants for t in _mtx(m['transactions'])}
            ctx = ep.create_context(transactions=ts, num_months=3, variables={}, period_data={'month': len(months) or 3, 'year': len(years) or 1})
            ep.evaluate(expr, ctx)
    except BaseException as e:
        return type(e).__name__
    return None


def classify_engine(text, mode, item):
    from tally import merchant_engine as me
    e = me.parse_merchants(text, match_mode=mode)
    r = e.match(_txn(item), data_sources=ROWS)
    return {'matched': r.matched, 'merchant': r.merchant, 'category': r.category, 'subcategory': r.subcategory,
            'tags': sorted(r.tags), 'extra_fields': _cv(r.extra_fields)}


def classify_normalize(path, mode, item):
    from tally import merchant_utils as mu
    rules = mu.get_all_rules(path, match_mode=mode)
    transforms = mu.get_transforms(path, match_mode=mode)
    t = _txn(item)
    m, c, s, info = mu.normalize_merchant(t['description'], rules, amount=t['amount'], txn_date=t['date'], field=t['field'],
                                          data_source=t['source'], transforms=transforms, data_sources=ROWS)
    return {'merchant': m, 'category': c, 'subcategory': s, 'tags': sorted((info or {}).get('tags', [])),
            'extra_fields': _cv((info or {}).get('extra_fields', {})), 'raw': _cv((info or {}).get('raw_values', {}))}


def classify_file(rules_path, stmt_path, mode):
    from tally import merchant_utils as mu, parsers, format_parser
    rules = mu.get_all_rules(rules_path, match_mode=mode)
    transforms = mu.get_transforms(rules_path, match_mode=mode)
    spec = format_parser.parse_format_string('{date:%Y-%m-%d},{description},{amount},{kind}')
    txns = parsers.parse_generic_csv(stmt_path, spec, rules, source_name='Card', transforms=transforms, data_sources=ROWS)
    return [{'description': t['raw_description'], 'merchant': t['merchant'], 'category': t['category'], 'subcategory': t['subcategory'],
             'tags': sorted(t['tags']), 'extra_fields': _cv(t.get('extra_fields') or {})} for t in txns]


def classify_views(text, merchants):
    from tally import section_engine as se
    cfg = se.parse_sections(text)
    groups = [{'merchant': m['merchant'], 'category': m['category'], 'subcategory': m['subcategory'],
               'transactions': _mtx(m['transactions'])} for m in merchants]
    months = {t['date'].strftime('%Y-%m') for g in groups for t in g['transactions']}
    years = {t['date'].year for g in groups for t in g['transactions']}
    res = se.classify_merchants(cfg, groups, num_months=3, period_data={'month': len(months) or 3, 'year': len(years) or 1})
    return {name: [g['merchant'] for g in ms] for name, ms in res.items()}


# ----------------------------------------------------------------------------- model reduction ("as if the failing rule did not exist for it")

def render_plain(model):
    import random
    text, _ = rf.render_rules(model, rf.gen_rules_layout(None, plain=True), random.Random(0))
    return text


def render_views_plain(vm):
    import random
    lay = rf.gen_rules_layout(None, plain=True)
    text, _ = rf.render_views(vm, lay, random.Random(0))
    return text


def reduce_rules(model, failing, let_reading):
    """failing: set of expression texts that cannot be evaluated for the item."""
    m = copy.deepcopy(model)
    m['variables'] = [v for v in m['variables'] if v[1] not in failing]
    m['transforms'] = [t for t in m['transforms'] if t[1] not in failing]
    out = []
    for r in m['rules']:
        if r['match'] in failing:
            continue
        r['fields'] = [f for f in r['fields'] if f[1] not in failing]
        r['tags'] = [t for t in r['tags'] if not (t.startswith('{') and t[1:-1].strip() in failing)]
        lets = []
        for n, e in r['lets']:
            if e in failing:
                if let_reading == 'none':
                    lets.append([n, 'None'])
                elif let_reading == 'drop-rule':
                    r = None
                    break
                # 'absent': drop the binding
            else:
                lets.append([n, e])
        if r is None:
            continue
        r['lets'] = lets
        if not r['category'] and not r['tags']:
            # a tag-only rule whose only tag is gone contributes nothing; the loader would reject it, so drop it
            continue
        out.append(r)
    m['rules'] = out
    return m


def render_csv(rows):
    return rf.render_csv_rules(rows, None, tags_col=True)


def reduce_csv(rows, failing):
    out = []
    for r in rows:
        if r['pattern'] in failing:
            continue
        r2 = dict(r, tags=[t for t in r['tags'] if not (t.startswith('{') and t[1:-1].strip() in failing)])
        out.append(r2)
    return out


# ----------------------------------------------------------------------------- execution

def execute(case, scratch):
    world = os.path.join(scratch, 'w')
    ctlp = os.path.join(scratch, 'ctl')
    violations = []
    count = {'cases': 1, 'evaluations': 0}
    sets = {'tuples': set()}
    log = [['case', util.digest(case)]]
    site = case['site']
    fam = case['family']

    def run(fn, faults=None, plain=False):
        plan_ = {'net': 'down', 'eval_faults': faults or None, 'today': case.get('today', '2025-06-15')}
        if plain:
            plan_['pyopt'] = 0      # whether an expression can be evaluated at all is asked of an ordinary interpreter
        if case.get('stderr_broken'):
            plan_['stdout_fault'] = {'after_effect': -1, 'stream': 'stderr'}
        def guarded(fn=fn):
            # the outcome is taken from the call itself, not from what the process manages to say on stderr
            try:
                return fn()
            except Exception as e:
                msg = str(e).replace(os.path.realpath(world), '<ROOT>').replace(world, '<ROOT>')
                return {'__raised__': '%s: %s' % (type(e).__name__, msg[:260])}
        r = proc.run_func(world, guarded, plan_, ctl_parent=ctlp)
        count['evaluations'] += 1
        fired = sum(1 for e in r.events if e.get('k') == 'evalfault')
        if fired:
            count['fired.eval-fault'] = count.get('fired.eval-fault', 0) + fired
        if r.exit != 0 or r.result is None:
            # the library call itself raised: that is an observation ("classification aborted"), not a harness error
            tb = r.err.strip().split('\n')
            return {'__raised__': tb[-1][:300] if tb else 'unknown'}, fired
        return r.result, fired

    def sched():
        return {'property': ID, 'case': case}

    def add(inv, path, what, witness):
        violations.append({'invariant': inv, 'signature': {'site': site, 'path': path, 'what': what, 'kind': 'injected' if case['injected'] else 'natural'},
                           'witness': witness, 'schedule': sched()})

    try:
        util.write_world(world, {})
        faults = case['eval_faults']
        if fam in ('rules', 'legacy'):
            items = case['items']
            if fam == 'rules':
                model = case['model']
                text = render_plain(model)
                all_exprs = ([v[1] for v in model['variables']] + [t[1] for t in model['transforms']] +
                             [x for r in model['rules'] for x in ([r['match']] + [l[1] for l in r['lets']] + [f[1] for f in r['fields']] +
                                                                  [t[1:-1].strip() for t in r['tags'] if t.startswith('{')])])
            else:
                text = render_csv(case['csv_rows'])
                all_exprs = [r['pattern'] for r in case['csv_rows']] + [t[1:-1].strip() for r in case['csv_rows'] for t in r['tags'] if t.startswith('{')]
            fname = 'rules.rules' if fam == 'rules' else 'rules.csv'
            util.write_world(world, {fname: text})
            rpath = os.path.join(world, fname)
            # loader accepts the file?
            if fam == 'rules':
                res, _ = run(lambda: classify_engine(text, case['mode'], items[0]), None)
                if isinstance(res, dict) and '__raised__' in res and 'ParseError' in res['__raised__']:
                    count['discarded.loader_rejects'] = 1
                    log.append(['rejected', res['__raised__']])
                    return fin(log, count, sets, violations)
            for it in items:
                # --- which expressions cannot be evaluated for this item
                failing = set()
                classes = set()
                if case['injected']:
                    if [case['expr'], it['id']] in faults:
                        failing.add(case['expr'])
                        classes.add('ExpressionError(injected)')
                else:
                    cand = [case['expr']] + list(case.get('more_exprs') or [])
                    for e in cand:
                        kind = 'txn'
                        src = e
                        if site == 'transform':
                            pass
                        res, _ = run(lambda e=src: fails_alone('txn', e, it), None, plain=True)
                        if isinstance(res, str):
                            failing.add(e)
                            # what the evaluation raises underneath (the evaluators convert it): from the pool the expression came from
                            under = [k_ for k_, v_ in BY_CLASS.items() if e in v_ or any(e == x.split(' == ')[0].split(' > ')[0] for x in v_)]
                            classes.add(res + ('<-' + under[0] if under else ''))
                my_faults = [f for f in faults if f[1] == it['id']]
                paths = ['engine', 'normalize'] if fam == 'rules' else ['normalize']
                for path in paths:
                    if path == 'engine' and site == 'transform':
                        continue      # MerchantEngine.match does not apply transforms
                    actual_fn = (lambda: classify_engine(text, case['mode'], it)) if path == 'engine' else (lambda: classify_normalize(rpath, case['mode'], it))
                    actual, fired = run(actual_fn, my_faults)
                    log.append(['actual', it['id'], path, util.digest(actual)])
                    pos = 'n/a'
                    if not failing:
                        count['not_failing_pairs'] = count.get('not_failing_pairs', 0) + 1
                    for c in classes or ['none']:
                        if failing:
                            sets['tuples'].add('%s|%s|%s' % (site, c, path))
                    if isinstance(actual, dict) and '__raised__' in actual and case.get('stderr_broken') and ('Broken pipe' in actual['__raised__'] or 'Errno 32' in actual['__raised__']):
                        # nobody reads stderr and the code wanted to say something there: it may die of that (loudly); what it must not do
                        # is carry on with other results - which the command-level check below still sees
                        count['died_of_broken_stderr'] = count.get('died_of_broken_stderr', 0) + 1
                        continue
                    if isinstance(actual, dict) and '__raised__' in actual:
                        add('DONE', path, 'raised', 'item r%d through %s: classification aborted with `%s` (failing expression at %s site: `%s`, %s)'
                            % (it['id'], path, actual['__raised__'], site, case['expr'], sorted(classes) or 'evaluates fine alone'))
                        continue
                    # --- expected: same file with the failing pieces removed for this item
                    readings = ['absent', 'none', 'drop-rule'] if site == 'let' and failing else ['absent']
                    expected = []
                    for rd in readings:
                        if fam == 'rules':
                            red = reduce_rules(model, failing, rd)
                            rtext = render_plain(red)
                        else:
                            rtext = render_csv(reduce_csv(case['csv_rows'], failing))
                        util.write_world(world, {fname: text, 'reduced-' + fname: rtext})
                        rp = os.path.join(world, 'reduced-' + fname)
                        fn = (lambda t=rtext: classify_engine(t, case['mode'], it)) if path == 'engine' else (lambda p=rp: classify_normalize(p, case['mode'], it))
                        ex, _ = run(fn, None)
                        expected.append(ex)
                    log.append(['expected', it['id'], path, util.digest(expected)])
                    if any(isinstance(e, dict) and '__raised__' in e for e in expected):
                        count['discarded.reduced_file_fails'] = count.get('discarded.reduced_file_fails', 0) + 1
                        continue
                    if actual not in expected:
                        diffk = sorted(k for k in actual if actual.get(k) != expected[0].get(k))
                        add('EQ', path, diffk[0] if diffk else 'result',
                            'item r%d through %s: %s  but with the failing %s `%s` removed for it: %s' % (
                                it['id'], path, util.canon(actual)[:300], site, case['expr'], util.canon(expected[0])[:300]))
            # --- whole statement through parse_generic_csv: no row lost, every row classified as it is on its own
            stmt_items = list(items)
            for k in range(case.get('big') or 0):
                b = items[k % len(items)]
                nid = len(items) + k + 1
                stmt_items.append(dict(b, id=nid, description=re.sub(r' r\d+$', ' r%d' % nid, b['description'])))
            if case.get('big') and case['injected']:
                ids = [it['id'] for it in stmt_items]
                faults = [[case['expr'], c] for c in ids] if case.get('rule_index', 0) % 2 == 0 else [[case['expr'], c] for c in ids if c % 3]
            lines = ['Date,Description,Amount,Kind'] + ['%s,%s,%s,%s' % (it['date'], it['description'], it['amount'], (it['field'] or {}).get('kind', ''))
                                                         for it in stmt_items]
            file_rows = None
            if True:
                util.write_world(world, {fname: text, 'stmt.csv': '\n'.join(lines) + '\n'})
                got, fired = run(lambda: classify_file(rpath, os.path.join(world, 'stmt.csv'), case['mode']), faults)
                log.append(['file', util.digest(got)])
                if isinstance(got, dict) and '__raised__' in got and case.get('stderr_broken') and ('Broken pipe' in got['__raised__'] or 'Errno 32' in got['__raised__']):
                    count['died_of_broken_stderr'] = count.get('died_of_broken_stderr', 0) + 1
                elif isinstance(got, dict) and '__raised__' in got:
                    add('DONE', 'parse_generic_csv', 'raised', 'parse_generic_csv over %d rows aborted with `%s` (failing %s `%s`): the whole source is lost'
                        % (len(stmt_items), got['__raised__'], site, case['expr']))
                elif len(got) != len(stmt_items):
                    missing = sorted({it['description'] for it in stmt_items} - {g['description'] for g in got})
                    add('DONE', 'parse_generic_csv', 'row-lost', 'parse_generic_csv returned %d of %d rows on %s; lost: %s (failing %s `%s`)'
                        % (len(got), len(stmt_items), case.get('today'), missing[:3], site, case['expr']))
                else:
                    file_rows = got
                    # a sample of rows, each also read as a one-row statement in a fresh process with the same rules and the same
                    # failing pairs: what a failing rule does to a row does not depend on the rows before it
                    n = len(stmt_items)
                    pick = sorted(set(list(range(min(3, n))) + list(range(max(0, n - 4), n)) + ([n // 2, n // 3] if n > 8 else [])))
                    for j in pick:
                        util.write_world(world, {fname: text, 'one.csv': lines[0] + '\n' + lines[j + 1] + '\n'})
                        one, _ = run(lambda: classify_file(rpath, os.path.join(world, 'one.csv'), case['mode']), faults)
                        if isinstance(one, dict) or len(one) != 1:
                            continue      # judged above for the base items
                        if util.canon(one[0]) != util.canon(got[j]):
                            add('EQ', 'parse_generic_csv', 'row-depends-on-earlier-rows',
                                'row %d of %d (%s): within the statement -> %s ; as a one-row statement -> %s (failing %s `%s`)' % (
                                    j + 1, n, stmt_items[j]['description'], util.canon(got[j])[:260], util.canon(one[0])[:260], site, case['expr']))
                            break
            # --- the whole command: `tally up` must complete and report every row, classified as the library call classified it
            if True:
                rules_rel = 'config/merchants.rules' if fam == 'rules' else 'config/merchant_categories.csv'
                osrc = case.get('orders_source')
                half_ = (len(lines) - 1 + 1) // 2 if len(lines) > 2 else len(lines) - 1
                settings = ('year: 2025\ndata_sources:\n  - name: Card\n    file: data/stmt.csv\n'
                            '    format: "{date:%Y-%m-%d},{description},{amount},{kind}"\n' +
                            ('  - name: Card\n    file: data/stmt2.csv\n    format: "{date:%Y-%m-%d},{description},{amount},{kind}"\n' if len(lines) > 2 else '') +
                            ('  - name: orders\n    file: data/orders.csv\n    format: "{date:%Y-%m-%d},{description},{amount}"\n    supplemental: true\n'
                             if osrc else '') + 'merchants_file: ' + rules_rel + '\n')
                if case['mode'] != 'first_match':
                    settings += 'rule_mode: %s\n' % case['mode']
                broot = os.path.join(scratch, 'b')
                # the rows are spread over two statements (a source lost along the way shows as missing rows in a report that still comes out)
                bfiles = {'config/settings.yaml': settings, rules_rel: text, 'data/stmt.csv': '\n'.join(lines[:1 + half_]) + '\n'}
                if len(lines) > 2:
                    bfiles['data/stmt2.csv'] = '\n'.join(lines[:1] + lines[1 + half_:]) + '\n'
                cplan = {'net': 'down', 'eval_faults': faults or None, 'today': case.get('today', '2025-06-15')}
                if case.get('stderr_broken'):
                    cplan['stdout_fault'] = {'after_effect': -1, 'stream': 'stderr'}
                if osrc in ('ok', 'EACCES'):
                    bfiles['data/orders.csv'] = 'Date,Description,Amount\n' + ''.join('2025-01-0%d,%s,%s\n' % (k_ + 1, o_['item'], o_['amount'])
                                                                                      for k_, o_ in enumerate(ROWS['orders']))
                elif osrc == 'empty':
                    bfiles['data/orders.csv'] = ''
                elif osrc == 'header-only':
                    bfiles['data/orders.csv'] = 'Date,Description,Amount\n'
                if osrc == 'EACCES':
                    cplan['reads'] = {'data/orders.csv': {'kind': 'oserror', 'errno': 'EACCES'}}
                if osrc and osrc != 'ok':
                    count['fired.supplemental-' + osrc] = count.get('fired.supplemental-' + osrc, 0) + 1
                util.write_world(broot, bfiles)
                r = proc.run_cli(broot, ['up', 'config', '--format', 'json', '-v'], cplan, ctl_parent=ctlp)
                count['evaluations'] += 1
                count['command_runs'] = count.get('command_runs', 0) + 1
                log.append(['up', r.exit, util.sha(util.norm_text(r.out, broot))])
                from .c15 import parse_json_report
                doc = parse_json_report(r.out) if r.exit == 0 else None
                if doc is None and case.get('stderr_broken') and r.exit != 0:
                    count['died_of_broken_stderr'] = count.get('died_of_broken_stderr', 0) + 1      # it could not say what it wanted to say and stopped: loud, not wrong
                elif doc is None:
                    add('DONE', 'tally up', 'raised', '`tally up` on %d rows exits %d: %s (failing %s `%s`)'
                        % (len(stmt_items), r.exit, (r.err.strip().split('\n') or [''])[-1][:200], site, case['expr']))
                else:
                    seen = {}
                    for mm in doc.get('merchants', []):
                        for d in (mm.get('raw_descriptions') or {}):
                            seen[d] = (mm.get('category'), mm.get('subcategory'))
                    # transforms may rewrite the description that is reported; compare by row id
                    ids_seen = {rid for d in seen for rid in re.findall(r'r(\d+)$', d)}
                    ids_want = {str(it['id']) for it in stmt_items}
                    if ids_seen != ids_want:
                        add('DONE', 'tally up', 'row-lost', '`tally up` on %s reported %d of %d rows; missing %s (failing %s `%s`)'
                            % (case.get('today'), len(ids_seen), len(ids_want), sorted(ids_want - ids_seen, key=int)[:5], site, case['expr']))
                    elif file_rows is not None and case.get('orders_source') == 'ok':
                        lib = {}
                        per_merchant = {}
                        for g in file_rows:
                            per_merchant.setdefault(g['merchant'], set()).add((g['category'], g['subcategory']))
                        for g in file_rows:
                            m_ = re.findall(r'r(\d+)$', g['description'])
                            # the report shows one category per merchant name: rows are comparable where that is unambiguous
                            if m_ and len(per_merchant[g['merchant']]) == 1:
                                lib[m_[-1]] = (g['category'], g['subcategory'])
                        for d, cs in sorted(seen.items()):
                            m_ = re.findall(r'r(\d+)$', d)
                            if m_ and m_[-1] in lib and lib[m_[-1]] != cs:
                                add('EQ', 'tally up', 'command-differs-from-library',
                                    '`tally up` files row `%s` under %s, parse_generic_csv with the same rules under %s (failing %s `%s`)' % (
                                        d, cs, lib[m_[-1]], site, case['expr']))
                                break
        else:
            vm = case['views_model']
            text = render_views_plain(vm)
            merchants = case['merchants']
            res, _ = run(lambda: classify_views(text, merchants[:1]), None)
            if isinstance(res, dict) and '__raised__' in res and 'ParseError' in res['__raised__']:
                count['discarded.loader_rejects'] = 1
                return fin(log, count, sets, violations)
            actual, fired = run(lambda: classify_views(text, merchants), faults)
            log.append(['views', util.digest(actual)])
            # --- the whole command: a budget whose merchants are these, grouped by this views file
            rl, st_lines, n = [], ['Date,Description,Amount'], 0
            for m in merchants:
                tags = sorted({t for tx in m['transactions'] for t in tx['tags']})
                rl.append('[%s]\nmatch: startswith("%s ")\ncategory: %s\nsubcategory: %s\n%s' % (
                    m['merchant'], m['merchant'], m['category'], m['subcategory'], ('tags: ' + ', '.join(tags) + '\n') if tags else ''))
                for tx in m['transactions']:
                    n += 1
                    st_lines.append('%s,%s r%d,%s' % (tx['date'], m['merchant'], n, tx['amount']))
            broot = os.path.join(scratch, 'b')
            util.write_world(broot, {
                'config/settings.yaml': 'year: 2025\ndata_sources:\n  - name: Card\n    file: data/s.csv\n    format: "{date:%Y-%m-%d},{description},{amount}"\n'
                                        'merchants_file: config/merchants.rules\nviews_file: config/views.rules\n',
                'config/merchants.rules': '\n'.join(rl), 'config/views.rules': text, 'data/s.csv': '\n'.join(st_lines) + '\n'})
            for argv in (['up', 'config', '--summary'], ['up', 'config', '-q']):
                r = proc.run_cli(broot, argv, {'net': 'down', 'eval_faults': faults or None, 'today': case.get('today', '2025-06-15')}, ctl_parent=ctlp)
                count['evaluations'] += 1
                count['command_runs'] = count.get('command_runs', 0) + 1
                log.append(['up', argv, r.exit, util.sha(util.norm_text(r.out, broot))])
                if r.exit != 0 and case.get('stderr_broken'):
                    count['died_of_broken_stderr'] = count.get('died_of_broken_stderr', 0) + 1
                elif r.exit != 0:
                    add('DONE', 'tally up', 'raised', '`tally %s` with %d merchants exits %d: %s (failing %s `%s`)'
                        % (' '.join(argv), len(merchants), r.exit, (r.err.strip().split('\n') or [''])[-1][:200], site, case['expr']))
            if isinstance(actual, dict) and '__raised__' in actual:
                add('DONE', 'classify_merchants', 'raised', 'classifying %d merchants into views aborted with `%s` (failing %s `%s`)'
                    % (len(merchants), actual['__raised__'], site, case['expr']))
            else:
                vk = case['view_index']
                vname = vm['views'][vk]['name']
                for m in merchants:
                    failing = False
                    cls = None
                    if case['injected']:
                        failing = [case['expr'], m['merchant']] in faults
                        cls = 'ExpressionError(injected)'
                    else:
                        r, _ = run(lambda m=m: fails_alone('view', case['expr'], m, merchants), None, plain=True)
                        failing = isinstance(r, str)
                        cls = r
                    if failing:
                        sets['tuples'].add('%s|%s|views' % (site, cls))
                    # expected membership from the views file without the failing view
                    vm2 = copy.deepcopy(vm)
                    judged = [v['name'] for v in vm2['views']]
                    if failing and site == 'view-filter':
                        # the failure is keyed by expression text: every view with that filter fails for this merchant
                        vm2['views'] = [v for j, v in enumerate(vm2['views']) if j != vk and v['filter'] != case['expr']]
                    elif failing and site == 'view-variable':
                        # both readings accepted for the view(s) that use the variable: judge only the others
                        if case.get('var_scope') == 'global':
                            vm2['globals'] = []
                            judged = [v['name'] for v in vm2['views'] if 'gv' not in v['filter']]
                            vm2['views'] = [v for v in vm2['views'] if 'gv' not in v['filter']]
                        else:
                            judged = [v['name'] for j, v in enumerate(vm2['views']) if j != vk]
                            vm2['views'] = [v for j, v in enumerate(vm2['views']) if j != vk]
                    if not vm2['views']:
                        continue
                    exp, _ = run(lambda t=render_views_plain(vm2): classify_views(t, [m]), None)
                    if isinstance(exp, dict) and '__raised__' in exp:
                        count['discarded.reduced_file_fails'] = count.get('discarded.reduced_file_fails', 0) + 1
                        continue
                    for name in judged:
                        if name not in exp:
                            continue
                        a = m['merchant'] in actual.get(name, [])
                        e = m['merchant'] in exp.get(name, [])
                        if a != e:
                            add('EQ', 'classify_merchants', 'membership',
                                'merchant %s is %s view [%s] but should %s (failing %s `%s` for it: %s)' % (
                                    m['merchant'], 'in' if a else 'not in', name, 'be' if e else 'not be', site, case['expr'], failing))
                    if failing and site == 'view-filter' and any(m['merchant'] in actual.get(v['name'], []) for v in vm['views'] if v['filter'] == case['expr']):
                        add('EQ', 'classify_merchants', 'member-of-failing-view',
                            'merchant %s is listed in view [%s] although its filter `%s` cannot be evaluated for it' % (m['merchant'], vname, case['expr']))
    finally:
        shutil.rmtree(scratch, ignore_errors=True)
    return fin(log, count, sets, violations)


def fin(log, count, sets, violations):
    dig = util.digest(log)
    for v in violations:
        v['digest'] = dig
    return {'violations': violations, 'count': count, 'sets': {k: sorted(v) for k, v in sets.items()}, 'samples': [], 'digest': dig}


def run_one(seed, i, tier, scratch):
    rng = util.rng_for(seed, ID, i)
    case = gen_case(rng, tier, i)
    res = execute(case, scratch)
    for v in res['violations']:
        v['schedule']['seed'] = seed
        v['schedule']['run'] = i
    if i < 3:
        res['samples'] = [{'seed': seed, 'run': i, 'family': case['family'], 'site': case['site'], 'injected': case['injected'],
                           'failing_expression': case['expr'], 'eval_faults': case['eval_faults'],
                           'items': [it['description'] for it in case['items']]}]
    return res


def replay(schedule, scratch):
    res = execute(schedule['case'], scratch)
    for v in res['violations']:
        v['schedule'] = schedule
    return {'violations': res['violations'], 'digest': res['digest']}


def shrink_candidates(schedule):
    case = schedule['case']
    items = case['items']
    if case.get('big'):
        # a shorter statement first: none of the repeats, half, three quarters, a few less
        for nb in (0, case['big'] // 2, case['big'] * 3 // 4, case['big'] - 8, case['big'] - 1):
            if 0 <= nb < case['big']:
                yield dict(schedule, case=dict(case, big=nb))
    if len(items) > 1:
        for j in range(len(items)):
            c2 = dict(case, items=items[:j] + items[j + 1:])
            c2['eval_faults'] = [f for f in case['eval_faults'] if f[1] != items[j]['id']]
            yield dict(schedule, case=c2)
    if case['family'] == 'rules':
        rules = case['model']['rules']
        for j in range(len(rules)):
            if j == case.get('rule_index') or len(rules) < 2:
                continue
            m2 = copy.deepcopy(case['model'])
            del m2['rules'][j]
            c2 = dict(case, model=m2, rule_index=case['rule_index'] - (1 if j < case['rule_index'] else 0))
            yield dict(schedule, case=c2)
    if case['family'] == 'views' and len(case['merchants']) > 1:
        ms = case['merchants']
        for j in range(len(ms)):
            c2 = dict(case, merchants=ms[:j] + ms[j + 1:])
            c2['eval_faults'] = [f for f in case['eval_faults'] if f[1] != ms[j]['merchant']]
            yield dict(schedule, case=c2)


def coverage(count, sets, samples, tier):
    return {
        'evaluations': count.get('evaluations', 0),
        'distinct_nontrivial': len(sets.get('tuples', ())),
        'rule': RULE,
        'samples': samples,
        'cases': count.get('cases', 0),
        'faults_fired': {k[6:]: v for k, v in count.items() if k.startswith('fired.')},
        'pairs_that_turned_out_evaluable': count.get('not_failing_pairs', 0),
        'discarded_runs': {k[10:]: v for k, v in count.items() if k.startswith('discarded.')},
        'tuples': sorted(sets.get('tuples', ())),
    }
