"""C11 - `tally up` honours every setting; a missing or unreadable source affects only itself.

exploration: seeded budgets rendered from a model; `tally up` (HTML default and --format json -v)
runs as a simulated process fault-free and once per (source, fault kind).  Oracle: the report equals
the model over the readable sources; the failing source is named; all sources failing => non-zero
exit.  Fault-free the report equals the model (wiring clause, by-product).  See DESIGN.md 5.4.
"""
import os
import re
import shutil

from .. import proc, util
from ..models import budget as bm
from ..models import report as rp
from .c15 import parse_json_report

ID = 'C11'
LEVEL = 'exploration'
COMPONENTS = {
    'real': ['`tally up` through tally.cli.main(): cmd_run, load_config, resolve_source_format, load_supplemental_sources, parse_generic_csv, '
             'analyze_transactions, classify_by_sections, write_summary_file_vue / export_json', 'PyYAML', 'HTML template substitution'],
    'stub': ['the missing / unreadable / undecodable statement file (at rest or read-fault injection)', 'TTY (none)', 'network (down)'],
    'not_executed': ['spending_report.js (the embedded data object is read, not rendered)'],
    'trusted_in_model': ['parse_merchants(...).match / legacy matcher / apply_transforms, called with explicit arguments in a fresh process (C01/C02/C09)'],
}
ASSUMPTIONS = [
    'the report is read from window.spendingData in the written HTML and from the JSON document on stdout',
    'faults are injected on non-supplemental sources only (rules may legitimately depend on supplemental rows)',
    'a failing source is "reported" when some output line contains its name together with a failure notice (not found / error / cannot / could not / unreadable / failed / unable / missing / skipped / no such / invalid / denied / problem / warning)',
    'generated strings avoid C12 territory (template placeholders, </script>, colliding merchant ids) and C08 territory (ill-typed expressions)',
    'supplemental amounts are written plain and positive (the supplemental reader documents no amount styles)',
]
RULE = ('budget = 1-3 primary sources with independent layouts (column order, skip columns, extra captures or description template, delimiter , ; | tab, '
        'header or not, decimal . or ,, {amount}/{-amount}/{+amount}/negate_amount, CRLF/LF) + optional supplemental source + rules (.rules first_match / '
        'most_specific with variables, transforms, let, field, cross-source query; legacy CSV; none) + optional views + currency/output settings.  '
        'Each budget runs fault-free (html and json) and once per (primary source, fault in absent / EACCES / EISDIR / EIO mid-read / invalid UTF-8 / '
        'content the csv module refuses / a transient read error that a second attempt would not meet - then the report is either the one without '
        'that source, which is named, or the complete one).  One budget in five has a symbolic link in it (rules file, views file, a statement, the '
        'config directory), one in four runs with TALLY_CONFIG naming another budget while the command line names this one, one source in 25 has '
        '140-380 rows, views may define a variable the file also defines.  '
        'distinct_nontrivial counts distinct configuration vectors (n sources x delimiters x headers x decimals x signs x rules kind x mode x views x '
        'supplemental x fault kind) whose report had at least one categorised and one Unknown transaction.')
FAULTS = ['absent', 'EACCES', 'EISDIR', 'EIO', 'bad-utf8', 'csv-error', 'EIO-once']
NOTICE = re.compile(r"not found|error|cannot|can't|could not|couldn't|unreadable|failed|fail|unable|missing|skip|no such|invalid|denied|problem|warning", re.I)


def runs(tier):
    return 96 if tier == 'quick' else 12000


def gen_case(rng, tier, i=None):
    b = bm.gen_budget(rng, 'full')
    # every primary source gets at least one row now and then, and merchant names stay id-distinct
    files = bm.render_budget(b, rng)
    prim = [s for s in b['sources'] if not s['supplemental']]
    faults = []
    for s in prim:
        kinds = list(FAULTS)
        rng.shuffle(kinds)
        for k in kinds[:2 if tier == 'quick' else 5]:
            f = {'source': s['name'], 'file': b['base'] + s['file'], 'kind': k}
            if k == 'EIO':
                # strictly inside the file, so that the read really fails
                f['after'] = rng.randint(0, max(0, len(files[b['base'] + s['file']]) // 2))
            if k == 'EIO-once':
                # a transient hiccup (a second attempt would succeed): somewhere inside the file, or at the read that would report EOF
                f['errno'] = rng.choice(['EIO', 'ESTALE', 'EAGAIN', 'EINTR', 'ETIMEDOUT'])
                if rng.random() < 0.3:
                    f['at_eof'] = True
                else:
                    f['after'] = rng.randint(1, max(1, len(files[b['base'] + s['file']]) - 1))
            if k == 'bad-utf8':
                f['at'] = rng.random()
            if k == 'csv-error':
                # content the csv module itself refuses (a field beyond its size limit): not an OSError, not a ValueError
                if s['layout']['delimiter'] == 'regex':
                    continue
                f['at'] = rng.random()
            faults.append(f)
    if len(prim) > 1 and rng.random() < 0.3:
        faults.append({'source': '*', 'kind': 'absent'})
    for s in b['sources']:
        if s['supplemental']:
            # the supplemental source cannot be loaded (for good, or once): it is reported like any other source, every primary row is
            # still in the report, and the rules either all had its rows or all had none
            for k in ['EIO-once', rng.choice(['absent', 'EACCES', 'EIO', 'EISDIR'])]:
                f = {'source': s['name'], 'file': b['base'] + s['file'], 'kind': k, 'supplemental': True}
                if k in ('EIO', 'EIO-once'):
                    f['after'] = rng.randint(0, max(1, len(files[b['base'] + s['file']]) - 1))
                    f['errno'] = rng.choice(['EIO', 'ESTALE', 'EAGAIN'])
                faults.append(f)
    case = {'budget': b, 'faults': faults, 'cfg': b['base'] + 'config'}
    forced_link = {1: 'rules-file', 5: 'config-dir', 9: 'data-file', 11: 'views-file'}.get(i % 12) if i is not None else None
    if forced_link:
        # (stratified over the run index: every batch of twelve budgets has one of each kind, where the budget has such a file)
        case['symlink'] = bm.add_symlinks(files, b, rng, kinds=(forced_link,))
    elif rng.random() < 0.1:
        # parts of the budget are symbolic links (a synced folder, a shared rules file): a link is the file it points to
        case['symlink'] = bm.add_symlinks(files, b, rng)
    if rng.random() < 0.25:
        # the environment names ANOTHER budget (TALLY_CONFIG left over from a different project); the command line names this one
        files['elsewhere-budget/config/settings.yaml'] = ('year: 2025\ndata_sources:\n  - name: Decoy\n    file: data/decoy.csv\n'
                                                          '    format: "{date:%m/%d/%Y},{description},{amount}"\n')
        files['elsewhere-budget/data/decoy.csv'] = 'Date,Description,Amount\n01/02/2025,DECOY SHOP r9901,777.00\n'
        case['env_decoy'] = True
    if rng.random() < 0.15:
        # stderr has gone away (closed terminal, `2>&1 | head`, a full disk behind 2>log): every write to it fails.  The command may
        # die of it; a report it does produce is the right one
        case['stderr_broken'] = True
    if i is not None and i % 5 == 3:
        # stdout cannot encode everything (PYTHONIOENCODING, LC_ALL=C, a legacy console): printing a name or an amount cell as
        # written may raise - the command may die of it, loudly; what it does report is right.  By the run index, not drawn.
        case['stdout_encoding'] = ('ascii', 'latin-1')[(i // 5) % 2]
    case['world'] = util.snap_to_json({r: c.encode('utf-8') for r, c in files.items()})
    return case


# ----------------------------------------------------------------------------- model side

class ModelUnavailable(Exception):
    pass


class _Done(Exception):
    pass


def model_report(case, failing, world, ctlp, no_supp=False):
    b = case['budget']
    txns = rp.expected_transactions(b, failing)
    supp = {} if no_supp else rp.supplemental_rows(b)
    kind = b['rules_kind']
    mode = b.get('rule_mode') or 'first_match'
    csv_path = os.path.join(world, b['base'] + 'config/merchant_categories.csv')
    text = b.get('rules_text')
    r = proc.run_func(world, lambda: rp.classify_with_engine(kind, text, csv_path, mode, txns, supp), {'net': 'down'}, ctl_parent=ctlp)
    if r.exit != 0 or r.result is None:
        if '/src/tally/' in (r.err or ''):
            # tally's own classification entry points (trusted here: C01/C02/C08/C09) raised for this budget's rows: there is
            # no model to compare with.  The command is still required to produce a report (see execute).
            raise ModelUnavailable((r.err.strip().split('\n') or [''])[-1][:300])
        raise proc.HarnessError('model classification failed: %s' % r.err[-1500:])
    cls = r.result
    merch = rp.merchants(txns, cls)
    return {'txns': txns, 'cls': cls, 'merchants': merch, 'totals': rp.totals(txns, cls),
            'views': rp.view_membership(b['views_model'], merch) if b.get('views_model') else None}


def rid(desc):
    m = re.findall(r'r(\d+)', desc or '')
    return int(m[-1]) if m else None


def compare_html(model, data):
    """-> list of (what, witness)."""
    out = []
    got = {}
    for cat, cd in (data.get('categoryView') or {}).items():
        for sub, sd in cd['subcategories'].items():
            for mid, m in sd['merchants'].items():
                key = (m['displayName'], m['category'], m['subcategory'])
                lst = got.setdefault(key, [])
                for t in m['transactions']:
                    lst.append((rid(t['description']), t['month'], round(t['amount'], 2), tuple(sorted(t.get('tags') or [])), t['source']))
    want = {}
    for name, m in model['merchants'].items():
        key = (name, m['category'], m['subcategory'])
        for t in m['txns']:
            want.setdefault(key, []).append((t['id'], t['month'], round(t['amount'], 2), tuple(t['tags']), t['source']))
    for k in want:
        want[k].sort()
    for k in got:
        got[k].sort()
    if got != want:
        gk, wk = set(got), set(want)
        if gk != wk:
            out.append(('merchants', 'report has merchants %s, model has %s' % (sorted(gk - wk)[:3], sorted(wk - gk)[:3])))
        else:
            k = next(k for k in want if got[k] != want[k])
            out.append(('transactions', 'under %s the report lists %s, the model %s' % (k, got[k][:4], want[k][:4])))
    for key, val in model['totals'].items():
        g = data.get(key)
        if g is None or abs(g - val) > 0.005:
            out.append(('total:' + key, '%s is %s in the report, %s in the model' % (key, g, round(val, 2))))
    if model['views'] is not None:
        gv = {}
        for sid, sec in (data.get('sections') or {}).items():
            gv[sec['title']] = sorted(m['displayName'] for m in sec['merchants'].values())
        wv = {k: v for k, v in model['views'].items() if v}
        if gv != wv:
            out.append(('views', 'views in the report %s, in the model %s' % (gv, wv)))
    return out


def compare_json(model, doc):
    out = []
    got = {}
    for m in doc.get('merchants', []):
        got[m['name']] = (m['category'], m['subcategory'], tuple(m.get('tags') or []), m['count'], round(m['total'], 2),
                          tuple(sorted(set(rid(d) for d in (m.get('raw_descriptions') or {})))))
    want = {}
    for name, m in model['merchants'].items():
        want[name] = (m['category'], m['subcategory'], tuple(sorted(m['tags'])), len(m['txns']),
                      round(sum(t['amount'] for t in m['txns']), 2), tuple(sorted(set(t['id'] for t in m['txns']))))
    def close(a, b):
        # totals are printed rounded to cents: a sum that lands on half a cent may round either way
        return a[:4] == b[:4] and abs(a[4] - b[4]) <= 0.0101 and a[5] == b[5]

    if got != want:
        names = sorted(set(got) ^ set(want))
        if names:
            out.append(('json-merchants', 'JSON merchants differ from the model: %s' % names[:4]))
        else:
            bad = [k for k in want if not close(got[k], want[k])]
            if bad:
                k = bad[0]
                out.append(('json-merchant', 'JSON merchant %s: %s, model: %s' % (k, got[k], want[k])))
    return out


# ----------------------------------------------------------------------------- execution

def apply_fault(root, f, snap):
    """Returns (reads plan, description).  At-rest faults modify the restored tree."""
    reads = {}
    if f['kind'] == 'absent':
        os.unlink(os.path.join(root, f['file']))
    elif f['kind'] == 'EISDIR':
        p = os.path.join(root, f['file'])
        os.unlink(p)
        os.mkdir(p)
    elif f['kind'] == 'EACCES':
        reads[f['file']] = {'kind': 'oserror', 'errno': 'EACCES'}
    elif f['kind'] == 'EIO':
        reads[f['file']] = {'kind': 'eio', 'after': f['after']}
    elif f['kind'] == 'EIO-once':
        reads[f['file']] = dict({'kind': 'eio', 'once': True, 'errno': f['errno']},
                                **({'at_eof': True} if f.get('at_eof') else {'after': f['after']}))
    elif f['kind'] == 'bad-utf8':
        p = os.path.join(root, f['file'])
        data = snap[f['file']]
        cut = int(len(data) * f['at'])
        with open(p, 'wb') as fh:
            fh.write(data[:cut] + b'\xff\xfe\xfa' + data[cut:])
    elif f['kind'] == 'csv-error':
        p = os.path.join(root, f['file'])
        data = snap[f['file']]
        cut = int(len(data) * f['at'])
        nl = data.rfind(b'\n', 0, cut) + 1            # at a record boundary (file start when there is none before)
        with open(p, 'wb') as fh:
            fh.write(data[:nl] + b'"' + b'x' * 140000 + b'\n' + data[nl:])
    return reads


def execute(case, scratch):
    root = os.path.join(scratch, 'world')
    ctlp = os.path.join(scratch, 'ctl')
    b = case['budget']
    cfg = case['cfg']
    violations = []
    count = {'budgets': 1, 'sim_processes': 0}
    sets = {'vectors': set()}
    log = [['case', util.digest(case)]]
    snap = util.snap_from_json(case['world'])
    lsnap = util.logical(snap)          # as programs see it (symbolic links followed)
    prim = [s for s in b['sources'] if not s['supplemental']]
    out_dir = b.get('output_dir') or 'output'
    html_name = b.get('html_filename') or 'spending_summary.html'
    html_path = os.path.join(root, b['base'], out_dir, html_name)

    def vector(fault_kind, model):
        cats = any(c[1] != 'Unknown' for c in model['cls'])
        unk = any(c[1] == 'Unknown' for c in model['cls'])
        if not (cats and unk):
            return
        sets['vectors'].add('|'.join([
            str(len(prim)), ','.join(sorted(str(s['layout']['delimiter']) for s in prim)),
            ','.join(sorted(str(s['layout']['has_header'])[0] for s in prim)), ','.join(sorted(s['layout']['decimal'] for s in prim)),
            ','.join(sorted((s['layout']['sign'] or '=') + ('n' if s['layout']['negate_setting'] else '') for s in prim)),
            b['rules_kind'], b.get('rule_mode') or 'first_match', 'views' if b.get('views_model') else '-',
            'supp' if any(s['supplemental'] for s in b['sources']) else '-', fault_kind]))

    def add(inv, what, fault_kind, witness, fault):
        violations.append({'invariant': inv, 'signature': {'what': what.split(':')[0], 'fault': fault_kind, 'rules': b['rules_kind']},
                           'witness': witness, 'schedule': {'property': ID, 'case': dict(case, faults=[fault] if fault else [])}})

    def run_up(fmt, reads, cwd='.'):
        carg = cfg if cwd == '.' else os.path.relpath(cfg, cwd)
        argv = ['up', carg] + (['--format', 'json', '-v'] if fmt == 'json' else [])
        plan = {'net': 'down', 'reads': reads}
        if case.get('env_decoy'):
            plan['env'] = {'TALLY_CONFIG': os.path.join(os.path.realpath(root), 'elsewhere-budget', 'config')}
        if case.get('stderr_broken'):
            plan['stdout_fault'] = {'after_effect': -1, 'stream': 'stderr'}
        if case.get('stdout_encoding'):
            plan['stdout_encoding'] = case['stdout_encoding']
            count['fired.stdout-' + case['stdout_encoding']] = count.get('fired.stdout-' + case['stdout_encoding'], 0) + 1
        r = proc.run_cli(root, argv, plan, cwd=cwd, ctl_parent=ctlp)
        count['sim_processes'] += 1
        return r

    def loud(r):
        """The command stopped, with a non-zero status, over something the machine did to its output streams: nobody reading
        stderr, or a stdout that cannot encode what was to be printed.  Loud, not wrong: not judged, counted."""
        if r.exit == 0:
            return False
        if case.get('stderr_broken'):
            count['died_of_broken_stderr'] = count.get('died_of_broken_stderr', 0) + 1
            return True
        if case.get('stdout_encoding') and 'UnicodeEncodeError' in r.err:
            count['died_of_stdout_encoding'] = count.get('died_of_stdout_encoding', 0) + 1
            return True
        return False

    try:
        # ---- fault-free: the wiring clause
        util.restore(root, snap)
        try:
            model = model_report(case, (), root, ctlp)
        except ModelUnavailable as e:
            count['discarded.model_unavailable'] = 1
            log.append(['model-unavailable', str(e)])
            r = run_up('json', {})
            if r.exit != 0 or parse_json_report(r.out) is None:
                add('WIRE', 'no-report', 'none', 'fault-free `tally up --format json` exits %d: %s (classifying the written rows through '
                    'tally\'s engine directly raises: %s)' % (r.exit, (r.err.strip().split('\n') or [''])[-1][:300], e), None)
            raise _Done()
        vector('none', model)
        if not model['txns']:
            count['discarded.no_transactions'] = 1
        else:
            r = run_up('html', {})
            log.append(['html', r.exit, util.sha(util.norm_text(r.out, root))])
            data = None
            if r.exit == 0 and os.path.exists(html_path):
                with open(html_path, 'r', encoding='utf-8') as fh:
                    data = rp.extract_spending_data(fh.read())
            if data is None and loud(r):
                pass
            elif data is None:
                add('WIRE', 'no-report', 'none', 'fault-free `tally up` exits %d and wrote no readable report: %s'
                    % (r.exit, (r.err.strip().split('\n') or [''])[-1][:300]), None)
            else:
                for what, w in compare_html(model, data):
                    add('WIRE', what, 'none', 'fault-free HTML report: ' + w, None)
            util.restore(root, snap)
            r = run_up('json', {})
            doc = parse_json_report(r.out) if r.exit == 0 else None
            log.append(['json', r.exit, util.sha(util.norm_text(r.out, root))])
            if doc is None and loud(r):
                pass
            elif doc is None:
                add('WIRE', 'no-report', 'none', 'fault-free `tally up --format json` exits %d: %s' % (r.exit, (r.err.strip().split('\n') or [''])[-1][:300]), None)
            else:
                for what, w in compare_json(model, doc):
                    add('WIRE', what, 'none', 'fault-free JSON report: ' + w, None)
        # ---- one failing source at a time
        for f in case['faults']:
            util.restore(root, snap)
            if f.get('supplemental'):
                reads = apply_fault(root, f, lsnap)
                count['fired.supplemental-' + f['kind']] = count.get('fired.supplemental-' + f['kind'], 0) + 1
                try:
                    m_without = model_report(case, (), root, ctlp, no_supp=True)
                    m_with = model_report(case, (), root, ctlp) if f['kind'] == 'EIO-once' else None
                except ModelUnavailable:
                    count['discarded.model_unavailable'] = count.get('discarded.model_unavailable', 0) + 1
                    continue
                if not m_without['txns']:
                    continue
                fmt = 'json' if util.digest(f)[0] in '01234567' else 'html'
                r = run_up(fmt, reads)
                text = r.out + '\n' + r.err
                log.append(['supp-fault', f, fmt, r.exit, util.sha(util.norm_text(text, root))])
                if f['kind'] in ('EIO', 'EIO-once') and not any(e.get('k') == 'readfault' for e in r.events):
                    continue
                if loud(r):
                    continue
                if r.exit != 0:
                    add('ISO', 'aborted', 'supplemental-' + f['kind'], 'supplemental source %s cannot be loaded (%s) and `tally up` exits %d: %s'
                        % (f['source'], f['kind'], r.exit, text.strip().split('\n')[-1][:300]), f)
                    continue
                diffs = {}
                for label, mdl in (('without its rows', m_without), ('with its rows', m_with)):
                    if mdl is None:
                        continue
                    if fmt == 'json':
                        doc = parse_json_report(r.out)
                        diffs[label] = [('no-report', 'no JSON document')] if doc is None else compare_json(mdl, doc)
                    else:
                        data = None
                        if os.path.exists(html_path):
                            with open(html_path, 'r', encoding='utf-8') as fh:
                                data = rp.extract_spending_data(fh.read())
                        diffs[label] = [('no-report', 'no HTML report')] if data is None else compare_html(mdl, data)
                if all(diffs.values()):
                    what, w = diffs['without its rows'][0]
                    add('ISO', what, 'supplemental-' + f['kind'], 'supplemental source %s cannot be loaded (%s): the report is neither the one the rules give '
                        'without its rows (%s)%s' % (f['source'], f['kind'], w, (' nor the one with them (%s)' % diffs['with its rows'][0][1])
                                                     if 'with its rows' in diffs else ''), f)
                used = not diffs.get('with its rows', [1])
                if f['kind'] != 'EIO-once' or not used:
                    named = [ln for ln in text.split('\n') if f['source'].lower() in ln.lower() and NOTICE.search(ln)]
                    if not named and '-q' not in r.argv if hasattr(r, 'argv') else not named:
                        add('REP', 'not-named', 'supplemental-' + f['kind'], 'supplemental source %s cannot be loaded (%s) but no output line names it '
                            'with a failure notice' % (f['source'], f['kind']), f)
                continue
            if f['source'] == '*':
                failing = [s['name'] for s in prim]
                for s in prim:
                    if os.path.exists(os.path.join(root, b['base'] + s['file'])):
                        os.unlink(os.path.join(root, b['base'] + s['file']))
                reads = {}
            else:
                # the fault is on a file: every source that reads that file fails
                failing = [s['name'] for s in prim if b['base'] + s['file'] == f['file']]
                reads = apply_fault(root, f, lsnap)
            count['fired.' + f['kind']] = count.get('fired.' + f['kind'], 0) + 1
            cwd = '.'
            if f['kind'] == 'absent' and f['source'] != '*':
                # the command is started from some other directory, where a file of the same relative name happens to lie:
                # a budget's sources are the files of the budget
                cwd = 'elsewhere' if util.digest(f)[1] in '01234567' else '.'
                src_rel = f['file'][len(b['base']):]
                decoy = os.path.join(root, cwd, src_rel)
                if not os.path.exists(decoy) and os.path.normpath(os.path.join(cwd, src_rel)) != os.path.normpath(f['file']):
                    os.makedirs(os.path.dirname(decoy), exist_ok=True)
                    with open(decoy, 'wb') as fh:
                        fh.write(lsnap[f['file']].replace(b' r', b' DECOY r'))
                elif cwd == 'elsewhere':
                    os.makedirs(os.path.join(root, cwd), exist_ok=True)
            try:
                model = model_report(case, failing, root, ctlp)
            except ModelUnavailable:
                count['discarded.model_unavailable'] = count.get('discarded.model_unavailable', 0) + 1
                continue
            vector(f['kind'], model)
            fmt = 'json' if util.digest(f)[0] in '01234567' and f['kind'] != 'bad-utf8' else 'html'
            r = run_up(fmt, reads, cwd)
            text = r.out + '\n' + r.err
            log.append(['fault', f, fmt, cwd, r.exit, util.sha(util.norm_text(text, root))])
            if f['kind'] == 'bad-utf8' and f['source'] != '*' and r.exit == 0 and not all(
                    any(nm in ln and NOTICE.search(ln) for ln in text.split('\n')) for nm in failing):
                # the command did not give the source up: it read the file under some other decoding.  Then it is not an unreadable
                # source, and what must hold is what holds for any source: every row once.  Which characters the three stray bytes
                # became is the decoder's business, so the record they sit in is not judged; every other row of every source is.
                data = None
                if os.path.exists(html_path):
                    with open(html_path, 'r', encoding='utf-8') as fh:
                        data = rp.extract_spending_data(fh.read())
                if data is None:
                    add('ISO', 'no-report', f['kind'], 'source %s has stray bytes, is not reported as failing, and no HTML report was written' % failing, f)
                    continue
                raw = lsnap[f['file']]
                cut = int(len(raw) * f['at'])
                lo = raw.rfind(b'\n', 0, max(0, raw.rfind(b'\n', 0, max(0, raw.rfind(b'\n', 0, cut)))))
                hi = cut
                for _ in range(3):
                    nx = raw.find(b'\n', hi + 1)
                    hi = nx if nx >= 0 else len(raw)
                near = {int(x) for x in re.findall(rb' r(\d+)', raw[max(0, lo):hi])}
                # rows that carry other non-ASCII characters (a currency sign, an accented name) read differently under another
                # decoding, legitimately: only the plain-ASCII records of the file are judged
                plines = raw.split(b'\n')
                for j_, ln_ in enumerate(plines):
                    if any(any(b_ >= 0x80 for b_ in x_) for x_ in plines[max(0, j_ - 1):j_ + 2]):
                        near.update(int(x) for x in re.findall(rb' r(\d+)', ln_))
                try:
                    full = model_report(case, (), root, ctlp)
                except ModelUnavailable:
                    continue
                want = sorted((t['source'], t['id'], t['month'], round(t['amount'], 2)) for m in full['merchants'].values() for t in m['txns']
                              if not (t['source'] in failing and t['id'] in near))
                got = []
                for cat, cd in (data.get('categoryView') or {}).items():
                    for sub, sd in cd['subcategories'].items():
                        for mid, m in sd['merchants'].items():
                            for t in m['transactions']:
                                # (a row of that source whose number can no longer be read is the record holding the stray bytes)
                                if not (t['source'] in failing and (rid(t['description']) in near or not rid(t['description']))):
                                    got.append((t['source'], rid(t['description']) or -1, t['month'], round(t['amount'], 2)))
                got.sort()
                if got != want:
                    extra = [x for x in got if x not in want][:3]
                    missing = [x for x in want if x not in got][:3]
                    add('ISO', 'rows-after-decoding-fallback', f['kind'],
                        'source %s has stray non-UTF-8 bytes and was read anyway: apart from the record holding them, the report has %d rows, the '
                        'files %d; not written: %s; written but not reported: %s' % (failing, len(got), len(want), extra, missing), f)
                count['decoded_anyway'] = count.get('decoded_anyway', 0) + 1
                continue
            if f['kind'] == 'EIO-once':
                if not any(e.get('k') == 'readfault' for e in r.events):
                    count['not_fired.EIO-once'] = count.get('not_fired.EIO-once', 0) + 1
                    continue
                # the sources that met the hiccup and gave up are the ones the output names; every other source (a second source
                # reading the same file opens it afresh; a reader that retried) must be in the report completely - each row once
                gave_up = [nm for nm in failing if any(nm in ln and NOTICE.search(ln) for ln in text.split('\n'))]
                if gave_up != failing:
                    try:
                        model = model_report(case, gave_up, root, ctlp)
                    except ModelUnavailable:
                        continue
                    failing = gave_up
            if not model['txns']:
                if case.get('stdout_encoding') and loud(r):
                    continue
                if r.exit == 0:
                    add('REP', 'all-sources-failed-exit-0', f['kind'], 'every source fails (%s) yet `tally up` exits 0' % failing, f)
                elif 'No transactions found' not in text and 'Traceback' in text:
                    add('REP', 'all-sources-failed-traceback', f['kind'], 'every source fails (%s): %s' % (failing, text.strip().split('\n')[-1][:200]), f)
                continue
            if loud(r):
                continue
            if r.exit != 0:
                add('ISO', 'aborted', f['kind'], 'source %s fails (%s) and `tally up` exits %d although other sources have %d transactions: %s'
                    % (failing, f['kind'], r.exit, len(model['txns']), text.strip().split('\n')[-1][:300]), f)
                continue
            for name in failing:
                named = [ln for ln in text.split('\n') if name in ln and NOTICE.search(ln)]
                if not named:
                    add('REP', 'not-named', f['kind'], 'source %s fails (%s) but no output line names it with a failure notice' % (name, f['kind']), f)
            if fmt == 'json':
                doc = parse_json_report(r.out)
                if doc is None:
                    add('ISO', 'no-report', f['kind'], 'source %s fails (%s): no JSON document in the output' % (failing, f['kind']), f)
                else:
                    for what, w in compare_json(model, doc):
                        add('ISO', what, f['kind'], 'with source %s failing (%s): %s' % (failing, f['kind'], w), f)
            else:
                data = None
                if os.path.exists(html_path):
                    with open(html_path, 'r', encoding='utf-8') as fh:
                        data = rp.extract_spending_data(fh.read())
                if data is None:
                    add('ISO', 'no-report', f['kind'], 'source %s fails (%s): no HTML report written' % (failing, f['kind']), f)
                else:
                    for what, w in compare_html(model, data):
                        add('ISO', what, f['kind'], 'with source %s failing (%s): %s' % (failing, f['kind'], w), f)
    except _Done:
        pass
    finally:
        shutil.rmtree(scratch, ignore_errors=True)
    dig = util.digest(log)
    for v in violations:
        v['digest'] = dig
    return {'violations': violations, 'count': count, 'sets': {k: sorted(v) for k, v in sets.items()}, 'samples': [], 'digest': dig}


def run_one(seed, i, tier, scratch):
    rng = util.rng_for(seed, ID, i)
    case = gen_case(rng, tier, i)
    res = execute(case, scratch)
    for v in res['violations']:
        v['schedule']['seed'] = seed
        v['schedule']['run'] = i
    if i < 2:
        b = case['budget']
        res['samples'] = [{'seed': seed, 'run': i, 'settings': case['world'].get(case['cfg'] + '/settings.yaml'),
                           'rules_kind': b['rules_kind'], 'rule_mode': b.get('rule_mode'), 'faults': case['faults'],
                           'files': sorted(case['world'])}]
    return res


def replay(schedule, scratch):
    res = execute(schedule['case'], scratch)
    for v in res['violations']:
        v['schedule'] = dict(schedule, case=v['schedule']['case'])
    return {'violations': res['violations'], 'digest': res['digest']}


# ----------------------------------------------------------------------------- shrinking

def _world_key(world, rel):
    """The key of the world entry that holds the bytes a program reads at `rel` (symbolic links followed)."""
    if rel in world:
        return rel
    links = {}
    for k, v in world.items():
        if k.endswith('@') and v is not None:
            t = v.get('t') if 't' in v else v.get('b')
            links[k[:-1]] = os.path.normpath(os.path.join(os.path.dirname(k[:-1]), t))
    r2 = util.resolve_path(links, rel)
    return r2 if r2 in world else None


def shrink_candidates(schedule):
    """Smaller budgets: fewer rows per source, fewer sources, no views, fewer rules, no decoy environment.  Every candidate
    re-renders what it touches from the model, so the model and the files stay in step."""
    import copy
    import random
    from ..models import statement as st
    from ..models import rulesfile as rf
    case = schedule['case']
    b = case['budget']
    base = b['base']
    faulted = {f.get('source') for f in case['faults']}

    def with_budget(b2, world2):
        k = _world_key(world2, base + 'config/settings.yaml')
        if k is None:
            return None
        world2[k] = {'t': bm.render_settings(b2)}
        return dict(schedule, case=dict(case, budget=b2, world=world2))

    if case.get('env_decoy'):
        yield dict(schedule, case=dict(case, env_decoy=False))
    # whole sources that are not the faulted one
    for j, s_ in enumerate(b['sources']):
        if s_['name'] in faulted or '*' in faulted or s_.get('shared') or len(b['sources']) < 2:
            continue
        b2 = copy.deepcopy(b)
        del b2['sources'][j]
        c = with_budget(b2, dict(case['world']))
        if c:
            yield c
    # rows
    for j, s_ in enumerate(b['sources']):
        if s_.get('shared') or len(s_['rows']) < 1:
            continue
        k = _world_key(case['world'], base + s_['file'])
        if k is None:
            continue
        n = len(s_['rows'])
        chunk = max(1, n // 2)
        while chunk >= 1:
            for a in range(0, n, chunk):
                b2 = copy.deepcopy(b)
                rows = b2['sources'][j]['rows']
                del rows[a:a + chunk]
                w2 = dict(case['world'])
                w2[k] = {'t': st.render(b2['sources'][j]['layout'], rows)}
                yield dict(schedule, case=dict(case, budget=b2, world=w2))
            if chunk == 1 or n > 40 and chunk <= n // 16:
                break
            chunk //= 2
    # views
    if b.get('views_model'):
        b2 = copy.deepcopy(b)
        b2['views_model'] = None
        b2['views_file_setting'] = None
        c = with_budget(b2, dict(case['world']))
        if c:
            yield c
    # rules
    if b['rules_kind'] == 'rules' and b.get('rules_model') and len(b['rules_model']['rules']) > 1:
        k = _world_key(case['world'], base + 'config/merchants.rules')
        if k is not None:
            for j in range(len(b['rules_model']['rules'])):
                b2 = copy.deepcopy(b)
                del b2['rules_model']['rules'][j]
                text, _ = rf.render_rules(b2['rules_model'], rf.gen_rules_layout(None, plain=True), random.Random(0))
                b2['rules_text'] = text
                w2 = dict(case['world'])
                w2[k] = {'t': text}
                yield dict(schedule, case=dict(case, budget=b2, world=w2))


def coverage(count, sets, samples, tier):
    return {
        'evaluations': count.get('sim_processes', 0),
        'distinct_nontrivial': len(sets.get('vectors', ())),
        'rule': RULE,
        'samples': samples,
        'budgets': count.get('budgets', 0),
        'faults_fired': {k[6:]: v for k, v in count.items() if k.startswith('fired.')},
        'discarded_runs': {k[10:]: v for k, v in count.items() if k.startswith('discarded.')},
    }
