"""C15 - an interrupted or failing migration never loses rules or strands the budget.

fault_enumeration: per seeded scenario, the golden run's effect trace is swept completely -
crash before every effect (in-flight file empty / partial / full), one OSError at every effect
(every errno legal for its kind), KeyboardInterrupt at every effect; thorough adds depth 2
(crash during the recovery run).  See DESIGN.md 5.1.
"""
import json
import os

from .. import proc, util
from ..models import budget as bm
from ..driver import shrink_world_candidates

ID = 'C15'
LEVEL = 'fault_enumeration'
COMPONENTS = {
    'real': ['tally.cli.main() as the console script runs it (up --migrate, up on a TTY, init, update)',
             'all of /repo/src/tally reached from there', 'PyYAML', 'csv/re/json/shutil/pathlib',
             'kernel tmpfs beneath the interposition layer'],
    'stub': ['GitHub API peer (scripted urlopen)', 'user at the TTY (scripted input/isatty)', 'clock (pinned)',
             'PATH lookups (empty PATH)'],
    'not_executed': ['spending_report.js (no browser)', 'perform_update (binary self-update)', 'commands/workflow.py'],
}
ASSUMPTIONS = [
    'durability model: process kill with ordered metadata - completed effects persist in program order; the file '
    'being written at the crash holds any prefix of the bytes written so far; no fsync-less reordering (DESIGN 4.2)',
    'one crash or one fault per run (depth 2 in the thorough tier), as the property states',
    'classification is observed through `tally up --format json -v` in a fresh simulated process',
    'CSV rule files restricted to patterns whose fault-free migration preserves classification in that very run',
]
RULE = ('scenario = seeded budget (old / new layout, CRLF or LF settings, comment mentioning merchants_file, pre-existing .bak / merchants.rules / '
        'tally/, config directory reached through a symbolic link) x migration command (up|run --migrate, up on a TTY answering y, init in three forms, update -y, update on a TTY) x seams (TTY, peer, '
        'cwd, pinned date); the golden run gives the effect trace and the list of files read; then: crash before every effect (cuts none/one/half/'
        'midline/midchar/line/minus1/all of the in-flight file), one OSError of every errno legal for the effect kind at every effect, '
        'KeyboardInterrupt at every effect, the disk staying full (ENOSPC) or read-only (EROFS) from every effect on, every path named by the trace '
        'staying locked (EPERM/EACCES on every effect naming it), EACCES / EIO on every budget file the command read, the reader of stdout (and stderr) '
        'going away after every effect (every later print fails with EPIPE), and the complete prefix; '
        'thorough adds depth 2.  distinct_nontrivial counts distinct (command class, normalised effect descriptor or path, fault kind, cut/errno '
        'class) placements that fired AND left the disk different from both the initial and the fully migrated tree.')

ERRNOS = {
    'open': ['EACCES', 'ENOSPC', 'EROFS', 'EMFILE'],
    'write': ['ENOSPC', 'EIO'],
    'close': ['EIO', 'ENOSPC'],
    'rename': ['EACCES', 'EPERM', 'EBUSY'],
    'mkdir': ['EACCES', 'ENOSPC'],
    'unlink': ['EACCES'],
    'rmdir': ['EACCES'],
}
CUTS = ['none', 'one', 'half', 'midline', 'midchar', 'line', 'minus1', 'all']
CUTS_QUICK = ['none', 'midline', 'midchar', 'line', 'all']


def runs(tier):
    return 24 if tier == 'quick' else 480


# ----------------------------------------------------------------------------- scenarios

def gen_scenario(rng, i):
    kind = 'layout' if rng.random() < 0.35 else 'csv'
    # the kind follows the run index too, so that the stratified variants below really occur in every batch of eight:
    # 1 and 7 are layout scenarios, the other six CSV scenarios
    kind = 'layout' if i % 8 in (1, 7) else 'csv'
    leftover = False
    b = bm.gen_budget(rng, 'migrate')
    if b.get('csv_rules'):
        # at least one row is categorised by the user's rules in every scenario: otherwise "classifies as before" says nothing
        rows0 = [rw for s_ in b['sources'] for rw in s_['rows']]
        if rows0:
            b['csv_rules'][0]['pattern'] = rows0[0]['desc'].split()[0].split('.')[0]
    pre = {}
    tty = {'stdin': False, 'stdout': False, 'answers': []}
    net = rng.choice(['down', 'down', 'timeout', '403', 'garbage', 'same', 'newer', 'older'])
    base = ''
    if kind == 'csv':
        variant = rng.choice(['up-migrate', 'up-migrate', 'up-tty', 'init', 'init'])
        force_leftover = i % 8 == 2       # stratified like the settings variants: every batch of eight has one
        if force_leftover or i % 8 == 5:
            variant = rng.choice(['up-migrate', 'up-migrate', 'up-tty'])      # (slot 5: the budget run with another settings file)
        if variant == 'init' and rng.random() < 0.4:
            base = 'mybudget/'
            b['base'] = base
            b['bystanders'] = {base + k if not k.startswith(base) else k: v for k, v in b['bystanders'].items()}
        if variant != 'init' and rng.random() < 0.3 and i % 8 != 5:
            # the budget already uses the new layout (./tally/config)
            base = 'tally/'
            b['base'] = base
            b['bystanders'] = {base + k if not k.startswith(base) else k: v for k, v in b['bystanders'].items()}
        files = bm.render_budget(b, rng)
        cfg = base + 'config'
        extra_s = []
        cfg_arg = [cfg] if rng.random() < 0.7 else []      # explicit argument, or found from the working directory
        verb = 'up' if rng.random() < 0.85 else 'run'      # `run` is the deprecated alias
        if variant == 'up-migrate':
            out = rng.choice([['--format', 'json', '-v'], ['--format', 'json', '-v'], ['--summary'], ['--summary', '-q'], [],
                              ['-q', '--format', 'json', '-v']])
            argv = [verb] + cfg_arg + ['--migrate'] + out
            cwd = '.'
        elif variant == 'up-tty':
            tty = {'stdin': True, 'stdout': True, 'answers': [rng.choice(['y', 'Y', ' y '])]}
            argv = [verb] + cfg_arg + rng.choice([['--format', 'json', '-v'], ['--format', 'json', '-v'], ['--summary'], []])
            cwd = '.'
        else:
            if base:
                argv = ['init', 'mybudget']
            else:
                argv = rng.choice([['init'], ['init', '.']])
            cwd = '.'
        # pre-existing files the migration might clobber
        r = rng.random()
        if force_leftover:
            r = 0.9
        if r < 0.12:
            pre[cfg + '/merchant_categories.csv.bak'] = 'Pattern,Merchant,Category,Subcategory\nOLDBACKUP,Old,Misc,Old\n'
            t = files.get(cfg + '/merchant_categories.csv', '')
            if rng.random() < 0.5 and len(t) > 45:
                # same size, same time stamp, other content
                pre[cfg + '/merchant_categories.csv.bak'] = t[:40] + ('X' if t[40] != 'X' else 'Y') + t[41:]
        elif r < 0.24 and variant != 'init':
            pre[cfg + '/merchants.rules'] = '# my hand-written rules\n[Old Rule]\nmatch: contains("OLDRULE")\ncategory: Misc\n'
        r = rng.random()
        sp = cfg + '/settings.yaml'
        if r < 0.1:
            files[sp] = files[sp].rstrip('\n') + '\n# merchants_file: config/merchants.rules  (not yet)\n'
        if rng.random() < 0.2 or (i % 8 == 3 and (i // 8) % 2 == 0):
            # a settings file edited on Windows: CRLF line endings (the user's bytes must survive as a prefix)
            files[sp] = files[sp].replace('\n', '\r\n')
        r = rng.random()
        # stratified over the run index, so that every batch - however small, whatever the seed - contains each of them
        r = {0: 0.12, 3: 0.03, 5: 0.18}.get(i % 8, r)
        if r < 0.07:
            # the key is there but has no value yet
            spell = ['\nmerchants_file:\n', '\nmerchants_file: null\n', '\nmerchants_file: ""\n', '\nmerchants_file:   # todo\n', '\nmerchants_file: \n', '\nmerchants_file: ~\n']
            tail = spell[(i // 16) % len(spell)] if i % 8 == 3 else rng.choice(spell)
            if '\r\n' in files[sp]:
                tail = tail.replace('\n', '\r\n')      # the key was typed in the same editor as the rest of the file
            files[sp] = files[sp].rstrip('\r\n') + tail
        elif r < 0.13:
            # settings.yaml names the legacy CSV itself (that works: a file that is not *.rules is read as CSV rules)
            files[sp] = files[sp].rstrip('\r\n') + ('\r\n' if '\r\n' in files[sp] else '\n') + 'merchants_file: config/merchant_categories.csv\n'
        elif r < 0.21 and variant != 'init' and not base:
            # the budget is run with another settings file (-s): that is the file the migration has to point at the new rules
            alt = 'settings-alt.yaml'
            files[cfg + '/' + alt] = files[sp]
            r_alt = rng.random() if i % 8 != 5 else [0.2, 0.5, 0.9][(i // 8) % 3]
            if r_alt < 0.35:
                files[sp] = 'year: 2020\ndata_sources: []\n'
            elif r_alt < 0.7:
                # the default settings.yaml (another year of the same budget) already runs on a .rules file of its own; the settings
                # file in use still relies on the legacy CSV
                files[sp] = files[sp].rstrip('\r\n') + ('\r\n' if '\r\n' in files[sp] else '\n') + 'merchants_file: config/rules-2020.rules\n'
                files[cfg + '/rules-2020.rules'] = '[Old Year]\nmatch: contains("OLDYEAR")\ncategory: Misc\nsubcategory: Old\n'
            extra_s = ['-s', alt]
        leftover = variant != 'init' and not pre and (rng.random() < 0.12 or force_leftover)
        if not pre and not leftover and 'merchants_file' not in files[sp] and (i % 8 == 4 or rng.random() < 0.05):
            # `tally init` in a fresh folder, then the old CSV copied in: settings.yaml names a merchants.rules that holds comments only
            pre[cfg + '/merchants.rules'] = '# Tally Merchant Rules\n# Add your rules below, for example:\n#\n# [Netflix]\n# match: contains("NETFLIX")\n# category: Subscriptions\n'
            files[sp] = files[sp].rstrip('\r\n') + ('\r\n' if '\r\n' in files[sp] else '\n') + 'merchants_file: config/merchants.rules\n'
        obs = {'argv': ['up', cfg, '--format', 'json', '-v'] + extra_s, 'cwd': '.'}
        if extra_s:
            argv = argv + extra_s
        cls = 'csv-init' if variant == 'init' else 'csv-up'
    else:
        # folder-layout migration: old layout at the world root, command run from there
        b['rules_kind'] = rng.choice(['csv', 'rules', 'rules'])
        if b['rules_kind'] == 'rules':
            from ..models import rulesfile as rf
            b['rules_model'] = rf.gen_rules_model(rng, rng.randint(1, 4), simple=True)
            words = sorted({rw['desc'].split()[0].split('.')[0] for s in b['sources'] for rw in s['rows']})
            for rule in b['rules_model']['rules']:
                if rng.random() < 0.7:
                    rule['match'] = 'contains("%s")' % rng.choice(words)
        if rng.random() < 0.25 or i % 8 == 1:
            # where the report goes is a setting: next to the budget, below config/, below data/ (all accepted by `tally up`)
            outs = ['.', 'config/reports', 'data/reports', 'reports', 'output/html']
            b['output_dir'] = rng.choice(outs)
            if i % 8 == 1:
                b['output_dir'] = outs[(i // 8) % len(outs)]     # the stratified slot walks through them in order
        files = bm.render_budget(b, rng)
        yes = rng.random() < 0.6
        if yes:
            argv = ['update', '-y'] + (['--prerelease'] if rng.random() < 0.15 else [])
        else:
            tty = {'stdin': True, 'stdout': True, 'answers': [rng.choice(['', 'Y', 'y', 'yes'])]}
            argv = ['update']
        cwd = '.'
        r = rng.random()
        if r < 0.15:
            pre['tally/keep.txt'] = 'something of mine\n'
        elif r < 0.25:
            pre['tally/'] = None
        if rng.random() < 0.5 and 'output/spending_summary.html' not in files:
            files['output/old.html'] = '<html>old</html>\n'
        obs = {'argv': ['up', '--format', 'json', '-v'], 'cwd': '.'}
        cls = 'layout'
    world = {}
    for r_, c in files.items():
        world[r_] = c
    for r_, c in pre.items():
        world[r_] = c
    if kind == 'csv' and (i % 8 == 6 or rng.random() < 0.06):
        cfg_ = base + 'config'
        which = (i // 8) % 3 if i % 8 == 6 else rng.randrange(3)
        if which == 0:
            # the config directory is a symbolic link (a synced or shared folder): `config` is how the user and settings.yaml spell it
            moved = [r_ for r_ in world if r_.startswith(cfg_ + '/')]
            for r_ in moved:
                world[base + 'store/tally-config/' + r_[len(cfg_) + 1:]] = world.pop(r_)
            world[cfg_ + '@'] = 'store/tally-config'
        else:
            # one config file is a symbolic link into a dotfiles / shared folder: settings.yaml, or the legacy CSV
            leaf = 'settings.yaml' if which == 1 else 'merchant_categories.csv'
            if cfg_ + '/' + leaf in world and world[cfg_ + '/' + leaf] is not None:
                world[base + 'dotfiles/' + leaf] = world.pop(cfg_ + '/' + leaf)
                world[cfg_ + '/' + leaf + '@'] = '../dotfiles/' + leaf
    reloc = None
    if i % 4 == 2:
        reloc = ['Household [2024]', 'my budget (joint) & co', 'b\u00fcdget 2025', 'a*b?c', 'plain'][(i // 4) % 5]
    elif rng.random() < 0.08:
        reloc = rng.choice(['Household [2024]', 'my budget (joint) & co', "it's {mine}", '100% $HOME'])
    if reloc and reloc != 'plain':
        # the budget lives in a folder whose name means something to glob, regular expressions, format strings or shells;
        # the command is started inside it
        world = {reloc + '/' + r_: c for r_, c in world.items()}
        cwd = reloc if cwd in ('.', '') else reloc + '/' + cwd
        obs = dict(obs, cwd=reloc if obs['cwd'] in ('.', '') else reloc + '/' + obs['cwd'])
    snap = {}
    for r_, c in world.items():
        if c is None:
            snap[r_.rstrip('/') + '/'] = None
        else:
            snap[r_] = c.encode('utf-8')
    env = {}
    if (kind == 'layout' and (i % 16 == 7 or rng.random() < 0.15)) or (kind == 'csv' and rng.random() < 0.1):
        # the shell exports TALLY_CONFIG=<budget>/config (a path that the layout migration is about to make dangle)
        cfg_here = [r_[:-len('/settings.yaml')] for r_ in world if r_.endswith('config/settings.yaml') or r_.endswith('config/settings.yaml@')]
        if cfg_here:
            env = {'TALLY_CONFIG': '<ROOT>/' + cfg_here[0].rstrip('@')}
    return {
        'class': cls,
        'env': env,
        'leftover_edited': bool(kind == 'csv' and leftover),
        'world': util.snap_to_json(snap),
        'cmd': {'argv': argv, 'cwd': cwd, 'tty': tty, 'net': net, 'env': env,
                'today': rng.choice(['2025-06-15', '2024-12-31', '2025-01-01', '2024-02-29', '2026-10-04'])},
        'obs': dict(obs, env=env),
    }


# ----------------------------------------------------------------------------- observation

def parse_json_report(out):
    """`tally up --format json` prints progress lines before the document: it starts at the first
    line that is exactly '{'."""
    lines = out.split('\n')
    for j, ln in enumerate(lines):
        if ln == '{':
            try:
                return json.JSONDecoder().raw_decode('\n'.join(lines[j:]))[0]
            except ValueError:
                return None
    return None


def classification(doc):
    """{raw description: [merchant, category, subcategory]}, {merchant: sorted tags}."""
    rows = {}
    tags = {}
    for m in doc.get('merchants', []):
        for d in (m.get('raw_descriptions') or {}):
            rows[d] = [m['name'], m['category'], m['subcategory']]
        tags[m['name']] = sorted(m.get('tags') or [])
    return {'rows': rows, 'tags': tags}


def observe(root, ctlp, obs):
    env = {k: v.replace('<ROOT>', os.path.realpath(root)) for k, v in (obs.get('env') or {}).items()}
    r = proc.run_cli(root, obs['argv'], {'tty': {}, 'net': 'down', 'env': env}, cwd=obs['cwd'], ctl_parent=ctlp)
    doc = parse_json_report(r.out) if r.exit == 0 else None
    if doc is None:
        err = (util.norm_text(r.err, root).strip().split('\n') or [''])[-1][:200]
        return {'status': 'fail', 'exit': r.exit, 'err': err}, r
    c = classification(doc)
    c['status'] = 'ok'
    return c, r


def all_unknown(c):
    return c.get('status') == 'ok' and c['rows'] and all(v[1] == 'Unknown' for v in c['rows'].values())


def some_categorised(c):
    return c.get('status') == 'ok' and any(v[1] != 'Unknown' for v in c['rows'].values())


def same_classification(a, b):
    return a.get('status') == 'ok' and b.get('status') == 'ok' and a['rows'] == b['rows'] and a['tags'] == b['tags']


# ----------------------------------------------------------------------------- invariants

def is_output_path(rel):
    parts = rel.split('/')
    return 'output' in parts[:-1] or parts[0] == 'output'


def lost_content(s0, sf):
    """I1: every user file content of s0 is still on disk somewhere as a whole file (settings may only
    have grown).  Report files in output/ are tally's own and exempt."""
    have = {}
    for r, c in sf.items():
        if c is not None:
            have.setdefault(c, []).append(r)
    lost = []
    for r, c in s0.items():
        if c is None or not c or is_output_path(r) or r.endswith('@'):
            continue      # (a symbolic link is a name, not content: what it pointed to is judged as the file it is)
        if c in have:
            continue
        bn = os.path.basename(r)
        if bn.startswith('settings') and bn.endswith('.yaml'):
            # a settings file may only have grown: its old bytes are a prefix of a settings file of the same name
            if any(c2 is not None and c2.startswith(c) and os.path.basename(r2) == bn for r2, c2 in sf.items()):
                continue
            # ... or every line of it is still there, in order - except a `merchants_file:` key that had no value, which the
            # migration may fill in where it stands instead of appending a second key (nothing the user wrote is gone then)
            import re as _re
            empty_key = _re.compile(rb'^[ \t]*merchants_file[ \t]*:[ \t]*(null|~|""|\'\')?[ \t]*(#.*)?\r?$')
            old_lines = [ln for ln in c.split(b'\n') if not empty_key.match(ln)]
            if len(old_lines) < len(c.split(b'\n')):
                def subseq(a, b):
                    it = iter(b)
                    return all(any(x == y for y in it) for x in a)
                if any(c2 is not None and os.path.basename(r2) == bn and subseq([ln for ln in old_lines if ln.strip()], c2.split(b'\n'))
                       for r2, c2 in sf.items()):
                    continue
        lost.append(r)
    return lost


def shape(cls, s0, sf, base_cfg):
    """Canonical abstraction of the post-fault disk state; used as the signature's 'state'."""
    def st(path, full=None):
        c = sf.get(path)
        if c is None:
            return 'absent'
        if full is not None:
            if c == full:
                return 'complete'
            if full.startswith(c):
                return 'empty' if not c else 'partial'
            return 'other'
        return 'present'
    if cls.startswith('csv'):
        cfg = base_cfg
        csv0 = s0.get(cfg + '/merchant_categories.csv')
        set0 = s0.get(cfg + '/settings.yaml') or b''
        setf = sf.get(cfg + '/settings.yaml')
        if setf is None:
            sset = 'absent'
        elif setf == set0:
            sset = 'unchanged'
        elif setf.startswith(set0):
            tail = setf[len(set0):].decode('utf-8', 'replace')
            if 'merchants_file: config/merchants.rules\n' in tail:
                sset = 'has-merchants_file'
            elif 'merchants_file:' in tail:
                sset = 'torn-merchants_file-line'
            elif 'views_file' in tail:
                sset = 'grown-views-only'
            else:
                sset = 'grown-comment-only'
        else:
            sset = 'rewritten'
        csvs = 'present' if sf.get(cfg + '/merchant_categories.csv') == csv0 and csv0 is not None else (
            'absent' if sf.get(cfg + '/merchant_categories.csv') is None else 'changed')
        baks_all = [c for r, c in sf.items() if r.startswith(cfg + '/merchant_categories.csv.bak') and c is not None]
        baks = 'absent' if not baks_all else ('is-csv' if csv0 in baks_all else 'other')
        rules = sf.get(cfg + '/merchants.rules')
        if rules is None:
            rs = 'absent'
        elif not rules:
            rs = 'empty'
        elif rules == s0.get(cfg + '/merchants.rules'):
            rs = 'old'
        elif rules.rstrip().endswith(b'#') or b'match:' not in rules:
            rs = 'partial-header'
        else:
            rs = 'written' if rules.endswith(b'\n') else 'partial'
        tmp = sorted(os.path.basename(r) for r in sf if r.startswith(cfg + '/') and sf[r] is not None
                     and ('.tmp' in r or r.endswith('~')))
        return 'csv=%s bak=%s rules=%s settings=%s%s' % (csvs, baks, rs, sset, (' tmp=' + ','.join(tmp)) if tmp else '')
    # layout
    def where(d):
        old = any(r == d + '/' or r.startswith(d + '/') for r in sf)
        new = any(r == 'tally/' + d + '/' or r.startswith('tally/' + d + '/') for r in sf)
        had = any(r == d + '/' or r.startswith(d + '/') for r in s0)
        if not had:
            return 'n/a'
        return {(True, False): 'old', (False, True): 'new', (True, True): 'both', (False, False): 'gone'}[(old, new)]
    marker = 'yes' if any(r.endswith('.tally-schema') for r in sf) else 'no'
    return 'config=%s data=%s output=%s marker=%s' % (where('config'), where('data'), where('output'), marker)


def effect_desc(e):
    """Normalised descriptor of an effect (basenames only), e.g. rename(merchant_categories.csv->.bak)."""
    if e is None:
        return 'end'
    k = e['k']
    if k == 'rename':
        return 'rename(%s->%s)' % (os.path.basename(e['src']), os.path.basename(e['dst']))
    if k == 'open':
        return 'open(%s,%s)' % (os.path.basename(e['path']), e.get('mode', ''))
    return '%s(%s)' % (k, os.path.basename(e.get('path', '')))


# ----------------------------------------------------------------------------- executing one fault case

def run_cmd(root, ctlp, cmd, fault=None):
    plan = {'tty': dict(cmd['tty'], answers=list(cmd['tty'].get('answers') or [])), 'net': cmd['net'],
            'today': cmd['today'], 'fault': fault, 'log_reads': True,
            'env': {k: v.replace('<ROOT>', os.path.realpath(root)) for k, v in (cmd.get('env') or {}).items()}}
    if fault and fault.get('kind') == 'read-fault':
        plan['fault'] = None
        plan['reads'] = {fault['path']: fault['how']}
    if fault and fault.get('kind') == 'stdout-broken':
        plan['fault'] = None
        plan['stdout_fault'] = {'after_effect': fault['after_effect'], 'stream': fault.get('stream', 'stdout'), 'errno': fault.get('errno', 'EPIPE')}
    return proc.run_cli(root, cmd['argv'], plan, cwd=cmd['cwd'], ctl_parent=ctlp)


def base_cfg_of(scn):
    for r in scn['world']:
        if r.endswith('config/settings.yaml'):
            return r[:-len('/settings.yaml')]
    return 'config'


tier_all_reruns = [False]       # thorough: every faulted case is followed by a re-run


def run_case(scn, faults, scratch, b0=None, log=None):
    """Restore the world, run the command once per fault in `faults` (each a fault plan or None),
    then observe.  Returns (violations, info)."""
    root = os.path.join(scratch, 'world')
    ctlp = os.path.join(scratch, 'ctl')
    s0 = util.snap_from_json(scn['world'])
    log = log if log is not None else []
    if b0 is None:
        util.restore(root, s0)
        b0, r = observe(root, ctlp, scn['obs'])
        log.append(['baseline', b0.get('status'), util.digest(b0)])
    s0 = util.restore(root, s0)
    cfg = base_cfg_of(scn)
    info = {'fired': [], 'effects': 0, 'procs': 1}
    if b0.get('status') != 'ok' or not b0['rows']:
        # no baseline classification: the invariants have nothing to compare with
        info.update({'sf_digest': util.tree_digest(s0), 'shape': 'baseline-fails'})
        return [], info, b0
    last = None
    pre = s0
    for f in faults:
        r = run_cmd(root, ctlp, scn['cmd'], f)
        info['procs'] += 1
        post = util.snapshot(root)
        bad = util.audit(pre, post, r.events)
        if bad:
            raise proc.HarnessError('effect seam incomplete: unexplained tree changes %r (argv=%r)' % (bad[:5], scn['cmd']['argv']))
        pre = post
        info['fired'].append(bool(r.fired) or any(e.get('k') == 'readfault' for e in r.events))
        info['effects'] += len(r.effects)
        log.append(['run', scn['cmd']['argv'], f, r.exit, [effect_desc(e) for e in r.effects], r.fired,
                    util.sha(util.norm_text(r.out, root)), util.sha(util.norm_text(r.err, root)), util.tree_digest(post)])
        last = r
    sf = pre
    info['sf_digest'] = util.tree_digest(sf)
    info['shape'] = shape(scn['class'], s0, sf, cfg)
    violations = []

    def add(inv, witness):
        violations.append({'invariant': inv, 'signature': {'migration': scn['class'], 'state': info['shape']},
                           'witness': witness})

    lost = lost_content(s0, sf)
    if lost:
        add('I1', 'user file content lost after %r: %r no longer on disk anywhere (state: %s)' % (faults, lost, info['shape']))
    # the faulted run's own report (it may have carried on after an injected error)
    own = None
    if last is not None and last.exit == 0 and not last.crashed and '--format' in scn['cmd']['argv'] and 'json' in scn['cmd']['argv']:
        doc = parse_json_report(last.out)
        if doc is not None:
            own = classification(doc)
            own['status'] = 'ok'
    o1, r1 = observe(root, ctlp, scn['obs'])
    info['procs'] += 1
    log.append(['observe', o1.get('status'), util.digest(o1)])
    rules_on_disk = not any(r.endswith(('merchant_categories.csv', 'merchants.rules')) for r in lost)
    def emptied(obs):
        # every row that the baseline categorised and that this report contains is now Unknown (and there is one)
        if obs.get('status') != 'ok' or not obs['rows']:
            return False
        common = [d for d in obs['rows'] if d in b0['rows'] and b0['rows'][d][1] != 'Unknown']
        return bool(common) and all(v[1] == 'Unknown' for v in obs['rows'].values())

    if some_categorised(b0) and rules_on_disk:
        if emptied(o1):
            add('I2', 'after %r the budget classifies every row Unknown while the rules are still on disk (state: %s)'
                % (faults, info['shape']))
        elif own is not None and emptied(own) and any(faults):
            add('I2', 'the faulted run itself (%r) reported every row Unknown while the rules are on disk (state: %s)'
                % (faults, info['shape']))
    # the user runs the command again after it failed - always when the budget no longer classifies as before, and for half of
    # the other cases too (a second run over whatever the first one left behind must not lose anything either)
    rerun_anyway = any(faults) and (tier_all_reruns[0] or util.digest(faults)[0] in '01234567')
    if not same_classification(o1, b0) or rerun_anyway:
        r2 = run_cmd(root, ctlp, scn['cmd'], None)
        info['procs'] += 1
        s2 = util.snapshot(root)
        bad = util.audit(sf, s2, r2.events)
        if bad:
            raise proc.HarnessError('effect seam incomplete on re-run: %r' % (bad[:5],))
        o2, _ = observe(root, ctlp, scn['obs'])
        info['procs'] += 1
        log.append(['rerun', r2.exit, [effect_desc(e) for e in r2.effects], util.tree_digest(s2), o2.get('status'), util.digest(o2)])
        lost2 = lost_content(s0, s2)
        if not same_classification(o2, b0):
            add('I3', 'after %r: `%s` gives %s; after re-running `%s` once it gives %s; before: %s (state: %s)' % (
                faults, ' '.join(scn['obs']['argv']), brief(o1), ' '.join(scn['cmd']['argv']), brief(o2), brief(b0), info['shape']))
        elif lost2 and not lost:
            add('I1', 'the recovery re-run lost user content %r (state before re-run: %s)' % (lost2, info['shape']))
        info['recovered_by_rerun'] = same_classification(o2, b0)
    return violations, info, b0


def brief(c):
    if c.get('status') != 'ok':
        return 'FAIL(exit=%s: %s)' % (c.get('exit'), c.get('err'))
    n = len(c['rows'])
    k = sum(1 for v in c['rows'].values() if v[1] != 'Unknown')
    return '%d rows, %d categorised' % (n, k)


def inflight_pending(trace, k):
    """Bytes pending in files open for writing just before effect k of the golden trace."""
    pending = {}
    for e in trace[:k]:
        if e['k'] == 'open':
            pending[e['path']] = 0
        elif e['k'] == 'write' and e['path'] in pending:
            pending[e['path']] += e['size']
        elif e['k'] == 'close':
            pending.pop(e['path'], None)
    return sum(pending.values()), bool(pending)


def fault_plans(trace, rng, tier):
    n = len(trace)
    plans = []
    for k in range(n):
        pend, _ = inflight_pending(trace, k)
        cuts = (CUTS if tier == 'thorough' else CUTS_QUICK) if pend > 0 else ['none']
        for c in cuts:
            plans.append({'kind': 'crash', 'at': k, 'cut': c})
        kind = trace[k]['k']
        for en in ERRNOS.get(kind, ['EIO']):
            if kind == 'write':
                for c in ('none', 'half'):
                    plans.append({'kind': 'oserror', 'at': k, 'errno': en, 'cut': c})
            elif kind == 'close' and pend > 0:
                for c in ('none', 'half', 'all'):
                    plans.append({'kind': 'oserror', 'at': k, 'errno': en, 'cut': c})
            else:
                plans.append({'kind': 'oserror', 'at': k, 'errno': en})
        plans.append({'kind': 'kbi', 'at': k})
        if kind == 'write' and trace[k].get('via') == 'os.write' and trace[k].get('size', 0) > 1:
            # write(2) stores half of what it was given and says so; the disk is full from then on
            plans.append({'kind': 'short-write', 'at': k})
        # persistent conditions starting at this step: the disk stays full, or turns read-only
        plans.append({'kind': 'oserror-from', 'at': k, 'errno': 'ENOSPC'})
        plans.append({'kind': 'oserror-from', 'at': k, 'errno': 'EROFS'})
    # whoever reads the command's output goes away (`tally ... | head`, a closed terminal) right after effect k: from then on every
    # print fails with EPIPE - an I/O error raised between two file-system steps, in the middle of whatever the code was doing
    for k in range(n):
        plans.append({'kind': 'stdout-broken', 'after_effect': k, 'stream': 'both' if k % 3 == 2 else 'stdout'})
    # one path that stays locked / immutable for the whole run (every effect naming it fails)
    paths = []
    for e in trace:
        for key in ('src', 'path', 'dst'):
            if e.get(key) and e[key] not in paths:
                paths.append(e[key])
    for p_ in paths:
        for en in ('EPERM', 'EACCES'):
            plans.append({'kind': 'oserror-path', 'path': p_, 'errno': en})
    return plans


def run_one(seed, i, tier, scratch):
    tier_all_reruns[0] = tier == 'thorough'
    rng = util.rng_for(seed, ID, i)
    scn = gen_scenario(rng, i)
    log = [['schedule', util.digest(scn)]]
    count = {'scenarios': 1, 'sim_processes': 0, 'fs_effects': 0}
    sets = {'placements': set(), 'post_fault_states': set(), 'shapes': set(), 'dates': {scn['cmd']['today']}}
    violations = []
    samples = []
    root = os.path.join(scratch, 'world')
    ctlp = os.path.join(scratch, 'ctl')
    s0 = util.snap_from_json(scn['world'])
    try:
        if scn.get('leftover_edited'):
            # the state an interrupted earlier run plus a user edit leaves behind: merchants.rules as the migration writes
            # it (asked from the converter itself), with a hand-added rule, while the budget still runs on the CSV
            cfg_ = base_cfg_of(scn)
            util.restore(root, s0)

            def conv():
                from tally.merchant_engine import csv_to_merchants_content
                from tally.merchant_utils import load_merchant_rules
                return csv_to_merchants_content(load_merchant_rules(os.path.join(root, cfg_, 'merchant_categories.csv')))
            rr = proc.run_func(root, conv, {'net': 'down'}, ctl_parent=ctlp)
            if rr.exit == 0 and isinstance(rr.result, str):
                how = (i // 8) % 3
                if how == 0:
                    left = rr.result + '\n[Corner Cafe]\nmatch: contains("CORNER")\ncategory: Food\nsubcategory: Cafe\n'    # complete, plus a rule added by hand
                elif how == 1:
                    # what an older release's in-place write left when it was cut short: the generated header and part of the body
                    lines_ = rr.result.split('\n')
                    first_rule = next((n_ for n_, l_ in enumerate(lines_) if l_.startswith('[')), len(lines_))
                    left = '\n'.join(lines_[:first_rule + 2]) + '\n'
                else:
                    left = '\n'.join(l_ for l_ in rr.result.split('\n') if l_.startswith('#') or not l_.strip()) + '\n'         # the header only
                s0[cfg_ + '/merchants.rules'] = left.encode('utf-8')
                scn = dict(scn, world=util.snap_to_json(s0), leftover_edited=False)
                log.append(['leftover-edited', util.digest(scn['world'])])
        s0 = util.restore(root, s0)
        b0, _ = observe(root, ctlp, scn['obs'])
        count['sim_processes'] += 1
        if b0.get('status') != 'ok' or not b0['rows']:
            count['discarded.baseline_fails'] = 1
            return fin(log, count, sets, violations, samples)
        # golden run
        util.restore(root, s0)
        g = run_cmd(root, ctlp, scn['cmd'], None)
        count['sim_processes'] += 1
        s1 = util.snapshot(root)
        bad = util.audit(s0, s1, g.events)
        if bad:
            raise proc.HarnessError('effect seam incomplete in golden run: %r' % (bad[:5],))
        trace = g.effects
        count['fs_effects'] += len(trace)
        log.append(['golden', g.exit, [effect_desc(e) for e in trace], util.tree_digest(s1)])
        b1, _ = observe(root, ctlp, scn['obs'])
        count['sim_processes'] += 1
        migrated = any(e['k'] == 'rename' for e in trace)
        if not migrated:
            count['discarded.no_migration_happened'] = 1
            return fin(log, count, sets, violations, samples)
        check_i3 = True
        if not same_classification(b1, b0):
            # the complete run is itself the last prefix: I1/I2 still apply to it, but "as before" (I3)
            # presupposes a classification-preserving conversion, which is C14's subject, not C15's
            if b1.get('status') != 'ok':
                # the run went through all its steps (or stopped at one that failed by itself) and the budget now gives no report at
                # all: that is not a conversion nuance - I3 asks for the classification as before, at once or after one re-run
                check_i3 = True
                count['golden_ends_without_report'] = 1
            elif not (some_categorised(b0) and all_unknown(b1)):
                count['discarded.golden_not_preserving'] = 1
                return fin(log, count, sets, violations, samples)
            else:
                check_i3 = False
        s1d = util.tree_digest(s1)
        s0d = util.tree_digest(s0)
        plans = [[p] for p in fault_plans(trace, rng, tier)]
        plans.append([None])      # the complete prefix (crash after the last effect)
        # reads are steps too: every budget file the command read fails to open (EACCES) or fails mid-read (EIO)
        read_paths = []
        for e in g.events:
            if e.get('k') == 'read' and e['path'] not in read_paths and not e['path'].endswith('.html'):
                read_paths.append(e['path'])
        for rp_ in read_paths:
            plans.append([{'kind': 'read-fault', 'path': rp_, 'how': {'kind': 'oserror', 'errno': 'EACCES'}}])
            plans.append([{'kind': 'read-fault', 'path': rp_, 'how': {'kind': 'eio', 'after': rng.choice([0, 1, 20])}}])
        if tier == 'thorough':
            # depth 2: crash in the first run, crash again somewhere in the recovery run
            singles = [p[0] for p in plans if p[0] and p[0]['kind'] == 'crash' and p[0]['cut'] in ('none', 'half', 'all')]
            for p in rng.sample(singles, min(6, len(singles))):
                k2 = rng.randrange(0, max(1, len(trace)))
                plans.append([p, {'kind': 'crash', 'at': k2, 'cut': rng.choice(['none', 'half', 'all'])}])
        for faults in plans:
            case_log = []
            vs, info, _ = run_case(scn, faults, scratch, b0=b0, log=case_log)
            count['sim_processes'] += info['procs'] - 1
            count['fs_effects'] += info['effects']
            count['cases'] = count.get('cases', 0) + 1
            f0 = faults[0]
            kindname = 'complete' if f0 is None else f0['kind'] + ('+crash' if len(faults) > 1 else '')
            if f0 is not None and not info['fired'][0]:
                count['not_fired'] = count.get('not_fired', 0) + 1
            else:
                count['fired.' + kindname] = count.get('fired.' + kindname, 0) + 1
            sets['post_fault_states'].add(info['sf_digest'])
            sets['shapes'].add(scn['class'] + ': ' + info['shape'])
            if info['sf_digest'] not in (s0d, s1d) and (f0 is None or info['fired'][0]):
                at_ = (f0 or {}).get('at', (f0 or {}).get('after_effect'))
                e = trace[at_] if f0 and at_ is not None and 0 <= at_ < len(trace) else None
                if f0 and f0['kind'] == 'oserror-path':
                    e = {'k': 'path', 'path': f0['path']}
                sets['placements'].add('%s|%s|%s|%s' % (scn['class'], effect_desc(e), kindname,
                                                        (f0 or {}).get('cut') or (f0 or {}).get('errno') or ''))
            if info.get('recovered_by_rerun'):
                count['recovered_by_rerun'] = count.get('recovered_by_rerun', 0) + 1
            cdig = util.digest(case_log)
            log.append(['case', faults, cdig])
            for v in vs:
                if v['invariant'] == 'I3' and not check_i3:
                    continue
                v['schedule'] = {'property': ID, 'seed': seed, 'run': i, 'scenario': scn, 'faults': faults, 'always_rerun': tier_all_reruns[0]}
                v['digest'] = cdig
                violations.append(v)
            if len(samples) < 1 and f0 is not None and f0['kind'] == 'crash' and info['fired'][0]:
                samples.append({'seed': seed, 'run': i, 'class': scn['class'], 'cmd': scn['cmd'],
                                'golden_trace': [effect_desc(e) for e in trace], 'fault': faults,
                                'post_fault_state': info['shape'],
                                'world_files': sorted(scn['world'])})
    finally:
        import shutil
        shutil.rmtree(scratch, ignore_errors=True)
    return fin(log, count, sets, violations, samples)


def fin(log, count, sets, violations, samples):
    return {'violations': violations, 'count': count, 'sets': {k: sorted(v) for k, v in sets.items()},
            'samples': samples, 'digest': util.digest(log)}


def replay(schedule, scratch):
    import shutil
    scn = schedule['scenario']
    case_log = []
    tier_all_reruns[0] = bool(schedule.get('always_rerun'))
    try:
        vs, info, _ = run_case(scn, schedule['faults'], scratch, b0=None, log=case_log)
    finally:
        shutil.rmtree(scratch, ignore_errors=True)
    # the baseline entry is not part of the per-case digest recorded by the sweep
    cdig = util.digest([e for e in case_log if e[0] != 'baseline'])
    for v in vs:
        v['schedule'] = schedule
        v['digest'] = cdig
    return {'violations': vs, 'digest': cdig}


def shrink_candidates(schedule):
    scn = schedule['scenario']
    protect = set(r for r in scn['world'] if r.endswith('settings.yaml'))
    for w in shrink_world_candidates(scn['world'], protect):
        s2 = dict(schedule)
        s2['scenario'] = dict(scn, world=w)
        yield s2
    # simpler faults: earlier cut classes
    fl = schedule['faults']
    for j, f in enumerate(fl):
        if f and f.get('cut') not in (None, 'none', 'all'):
            for c in ('none', 'all'):
                f2 = dict(f, cut=c)
                yield dict(schedule, faults=fl[:j] + [f2] + fl[j + 1:])
        if f and f['kind'] in ('oserror', 'kbi'):
            yield dict(schedule, faults=fl[:j] + [{'kind': 'crash', 'at': f['at'], 'cut': 'none'}] + fl[j + 1:])
        if f and f['kind'] == 'oserror-from':
            yield dict(schedule, faults=fl[:j] + [{'kind': 'oserror', 'at': f['at'], 'errno': f['errno']}] + fl[j + 1:])
    if len(fl) > 1:
        for j in range(len(fl)):
            yield dict(schedule, faults=fl[:j] + fl[j + 1:])


def coverage(count, sets, samples, tier):
    fired = {k[6:]: v for k, v in count.items() if k.startswith('fired.')}
    return {
        'evaluations': count.get('sim_processes', 0),
        'distinct_nontrivial': len(sets.get('placements', ())),
        'rule': RULE,
        'samples': samples,
        'scenarios': count.get('scenarios', 0),
        'fault_cases': count.get('cases', 0),
        'fs_effects': count.get('fs_effects', 0),
        'sim_processes': count.get('sim_processes', 0),
        'faults_fired': fired,
        'faults_not_fired': count.get('not_fired', 0),
        'distinct_post_fault_states': len(sets.get('post_fault_states', ())),
        'distinct_state_shapes': sorted(sets.get('shapes', ())),
        'recovered_by_one_rerun': count.get('recovered_by_rerun', 0),
        'discarded_runs': {k[10:]: v for k, v in count.items() if k.startswith('discarded.')},
        'sim_dates_spanned': sorted(sets.get('dates', ())),
        'exhaustive': False,
        'sweep': 'complete over the effect indices of each scenario; scenarios, cut lengths and depth-2 placements are sampled by seed',
    }
