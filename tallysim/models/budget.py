"""Reference model of a budget directory: layout, settings, sources, rules, views, bystanders.

gen_budget() draws a model; render_budget() turns it into {relpath: text}.  The model is the
only thing the oracles trust about the world (C11 wiring, C15/C20 frame conditions).
"""
import random
from . import statement as st
from . import rulesfile as rf


def _yaml_str(s):
    return '"' + s.replace('\\', '\\\\').replace('"', '\\"') + '"'


def render_source_yaml(src):
    s = src['settings']
    out = ['  - name: %s' % s['name'], '    file: %s' % s['file'], '    format: %s' % _yaml_str(s['format'])]
    if 'delimiter' in s:
        out.append('    delimiter: %s' % _yaml_str(s['delimiter']))
    if 'has_header' in s:
        out.append('    has_header: false')
    if 'decimal_separator' in s:
        out.append('    decimal_separator: %s' % _yaml_str(s['decimal_separator']))
    if 'negate_amount' in s:
        out.append('    negate_amount: true')
    if 'columns' in s:
        out.append('    columns:')
        out.append('      description: %s' % _yaml_str(s['columns']['description']))
    if s.get('supplemental'):
        out.append('    supplemental: true')
    return out


def gen_budget(rng, profile='migrate', year=2025):
    """profile: 'migrate' (C15: legacy CSV rules, simple statements), 'mixed' (C20), 'full' (C11)."""
    b = {'year': year, 'layout': 'old', 'cfg': 'config', 'base': '', 'sources': [], 'rules_kind': 'none',
         'csv_rules': [], 'rules_model': None, 'rules_text': None, 'views_model': None, 'views_text': None,
         'settings': {}, 'bystanders': {}, 'extra_dirs': [], 'rule_mode': None, 'settings_tail': '',
         'settings_comment': None, 'currency_format': None, 'output_dir': None, 'html_filename': None}
    if profile != 'migrate' and rng.random() < 0.35:
        b['layout'] = 'new'
        b['base'] = 'tally/'
    names = rng.sample(['Card', 'Bank', 'Amex', 'Visa', 'Joint'], rng.randint(1, 3 if profile != 'migrate' else 2))
    rid = 1
    simple_st = profile == 'migrate' or (profile == 'mixed' and rng.random() < 0.5)
    for nm in names:
        if not simple_st and rng.random() < 0.12:
            # a statement split by a regular expression (upper-case classes in the pattern: the setting is used as written)
            lay = st.gen_layout(rng, rich=False, simple=False, delimiter='regex')
        else:
            lay = st.gen_layout(rng, rich=False, simple=simple_st)
        n_rows = rng.randint(1 if profile == 'migrate' else 0, 6)
        if profile == 'full' and rng.random() < 0.04:
            n_rows = rng.randint(140, 380)      # now and then a long statement
        rows = st.gen_rows(rng, n_rows, first_id=rid, year=year)
        rid += len(rows) + 1
        st.fill_caps(rng, lay, rows)
        if profile == 'full' and rows and rng.random() < 0.2 and lay['delimiter'] != 'regex':
            # one line of the export is damaged (a date that is none): skipped on its own, everything else is read
            bad_ = dict(rows[rng.randrange(len(rows))], id=rid + len(rows) + 50)
            cells_ = st.row_cells(lay, bad_)
            cells_[lay['cols'].index('date')] = 'Pending'
            bad_['raw'] = st.join_cells(lay, cells_)
            rows.insert(rng.randint(0, len(rows)), bad_)
        file = 'data/%s.csv' % nm.lower()
        if profile == 'full' and rng.random() < 0.25:
            # what a statement file is called says nothing about how it is read
            file = 'data/' + rng.choice(['%s.txt', '%s.TSV', '%s.dat', '%s export 2025', '%s.csv.txt', '%s.tab']) % nm.lower()
        src = {'name': nm, 'file': file, 'layout': lay, 'rows': rows, 'supplemental': False,
               'settings': st.source_settings(lay, nm, file)}
        b['sources'].append(src)
    if profile != 'migrate' and len(b['sources']) > 1 and rng.random() < 0.4:
        # two sources whose *format strings* are character-identical while their per-source settings differ:
        # anything keyed on (or shared through) the format string leaks one source's settings into the other
        a, c2 = b['sources'][0], b['sources'][1]
        lay = dict(a['layout'])
        if lay['delimiter'] != 'regex':
            lay['has_header'] = not a['layout']['has_header'] if rng.random() < 0.6 else a['layout']['has_header']
            lay['delimiter'] = rng.choice([d for d in st.CSV_DELIMS if d != a['layout']['delimiter']] + [a['layout']['delimiter']])
            if lay['sign'] == '':
                lay['negate_setting'] = not a['layout']['negate_setting'] if rng.random() < 0.5 else a['layout']['negate_setting']
            lay['decimal'] = rng.choice(['.', ','])
            lay['eol'] = rng.choice(['\n', '\r\n'])
            c2['layout'] = lay
            st.fill_caps(rng, lay, c2['rows'])
            c2['settings'] = st.source_settings(lay, c2['name'], c2['file'])
    if profile == 'full' and rng.random() < 0.25:
        # one statement file read by TWO sources (a Debit and a Credit column, each source taking one of them):
        # a source is its whole configuration, not its file
        rows = st.gen_rows(rng, rng.randint(2, 6), first_id=700, year=year, neg_rate=0.0)
        deb, cre = [], []
        base_lay = {'mode': 1, 'date_format': '%m/%d/%Y', 'delimiter': None, 'has_header': True, 'decimal': '.', 'negate_setting': False,
                    'eol': '\n', 'final_newline': True, 'extras': [], 'skips': 1, 'location': False, 'template': None}
        lay_d = dict(base_lay, sign=rng.choice(['', '+']), cols=['date', 'description', 'amount', 'skip'])
        lay_c = dict(base_lay, sign='-', cols=['date', 'description', 'skip', 'amount'])
        for r in rows:
            if r['style'] != 'plain3':
                r['style'] = 'plain'
            (deb if rng.random() < 0.5 else cre).append(r)
        for nm, lay_, rws in (('Debits', lay_d, deb), ('Credits', lay_c, cre)):
            b['sources'].append({'name': nm, 'file': 'data/both.csv', 'layout': lay_, 'rows': rws, 'supplemental': False,
                                 'settings': st.source_settings(lay_, nm, 'data/both.csv'), 'shared': 'debit' if nm == 'Debits' else 'credit'})
    dup_rule = None
    if profile == 'full' and rng.random() < 0.35:
        # two rows identical in date, description and amount that differ only in a captured column, and a rule that reads it:
        # a row is more than its description
        cands = [s for s in b['sources'] if s['layout']['mode'] == 1 and s['layout']['extras'] and s['rows'] and not s.get('shared')]
        if cands:
            s_ = rng.choice(cands)
            j = rng.randrange(len(s_['rows']))
            orig = s_['rows'][j]
            dup = dict(orig, caps=dict(orig['caps']))
            e = s_['layout']['extras'][0]
            dup['caps'][e] = 'TWIN' if orig['caps'].get(e) != 'TWIN' else 'TWIN2'
            s_['rows'].insert(j + rng.choice([0, 1]), dup)
            dup_rule = {'name': 'By Field', 'match': 'field.%s == "%s"' % (e, dup['caps'][e]), 'category': 'Fielded', 'subcategory': 'Twin',
                        'merchant': '', 'tags': ['twin'], 'priority': 99, 'lets': [], 'fields': []}
    fields = sorted({e for s in b['sources'] for e in s['layout']['extras'] if s['layout']['mode'] == 1})
    supp_name = None
    if profile == 'full' and rng.random() < 0.4:
        lay = st.gen_layout(rng, simple=True)
        lay['sign'] = ''
        lay['negate_setting'] = False
        lay['decimal'] = '.'
        rows = st.gen_rows(rng, rng.randint(1, 4), first_id=900, year=year)
        # make some supplemental amounts coincide with primary rows so cross-source rules fire
        prim = [r for s in b['sources'] for r in s['rows']]
        for k_, r in enumerate(rows):
            if prim and rng.random() < 0.6:
                # (the first supplemental row often echoes the very first transaction of the run: whatever happens on first use
                # of the supplemental rows then shows in the report)
                src_row = prim[0] if k_ == 0 and rng.random() < 0.6 else rng.choice(prim)
                r['value'] = abs(src_row['value'])
                r['style'] = 'plain3' if src_row['style'] == 'plain3' else 'plain'
            elif r['style'] != 'plain3':
                r['style'] = 'plain'
        file = 'data/orders.csv'
        b['sources'].append({'name': 'Orders', 'file': file, 'layout': lay, 'rows': rows, 'supplemental': True,
                             'settings': st.source_settings(lay, 'Orders', file, supplemental=True)})
        # identifiers are case-insensitive in rule expressions: the rule may spell the source any way
        supp_name = rng.choice(['orders', 'orders', 'Orders', 'ORDERS'])

    # rules
    r = rng.random()
    if profile == 'migrate':
        b['rules_kind'] = 'csv'
    elif r < 0.3:
        b['rules_kind'] = 'csv'
    elif r < 0.85:
        b['rules_kind'] = 'rules'
    else:
        b['rules_kind'] = 'none'
    used = sorted({rw['desc'].split()[0].split('.')[0] for s in b['sources'] for rw in s['rows']})
    if b['rules_kind'] == 'csv':
        items = rf.gen_csv_rules(rng, rng.randint(1, 5))
        # bias patterns towards words that occur
        for it in items:
            if used and rng.random() < 0.6 and '[' not in it['pattern'] and '|' not in it['pattern'] \
                    and '.*' not in it['pattern'] and not it['pattern'].startswith('^'):
                it['pattern'] = rng.choice(used)
        b['csv_rules'] = items
    elif b['rules_kind'] == 'rules':
        srcs = [s['name'] for s in b['sources'] if not s['supplemental']]
        m = rf.gen_rules_model(rng, rng.randint(1, 6), fields=fields, sources=srcs,
                               simple=(profile != 'full'), supplemental=supp_name)
        for rule in m['rules']:
            if used and rng.random() < 0.5 and rule['match'].startswith('contains("'):
                w = rng.choice(used)
                rule['match'] = 'contains("%s")' % w + rule['match'][rule['match'].index('")') + 2:]
        if dup_rule is not None:
            m['rules'].insert(0, dup_rule)
        if supp_name and rng.random() < 0.8:
            # a rule whose verdict depends on the supplemental rows (placed first so that it decides in first_match mode)
            ident = rng.choice([supp_name, supp_name.lower(), supp_name.upper(), supp_name.title()])
            m['rules'].insert(0, {'name': 'Ordered', 'match': 'any(r.amount == txn.amount for r in %s)' % ident, 'category': 'Ordered',
                                  'subcategory': 'Matched', 'merchant': '', 'tags': ['ordered'], 'priority': 95, 'lets': [], 'fields': []})
        b['rules_model'] = m
        if profile == 'full' and rng.random() < 0.4:
            b['rule_mode'] = 'most_specific'
        if profile == 'full' and used and rng.random() < 0.6:
            # an overlapping pair: a general rule first, a more specific one later - the rule mode decides who wins
            w = rng.choice(used)
            m['rules'].insert(0, {'name': w.title() + ' General', 'match': 'contains("%s")' % w, 'category': 'General', 'subcategory': 'Any',
                                  'merchant': '', 'tags': [], 'priority': None, 'lets': [], 'fields': []})
            m['rules'].append({'name': w.title() + ' Specific', 'match': 'contains("%s") and amount > 1' % w, 'category': 'Specific',
                               'subcategory': 'Narrow', 'merchant': '', 'tags': [], 'priority': None, 'lets': [], 'fields': []})
        if profile == 'full' and len(srcs) >= 2:
            # one rules file for several accounts: a rule pinned to the account that is read last (what an earlier account's
            # trouble leaves behind in the process shows on that account's rows).  Drawn from the content, not from `rng`.
            import zlib
            r2 = random.Random(zlib.crc32(repr(used).encode()))
            last = [s for s in b['sources'] if not s['supplemental']][-1]
            if last['rows'] and r2.random() < 0.6:
                w = r2.choice(last['rows'])['desc'].split()[0].split('.')[0]
                m['rules'].insert(0, {'name': w.title() + ' On ' + last['name'], 'match': 'contains("%s") and source == "%s"' % (w, last['name']),
                                      'category': 'Account', 'subcategory': 'Pinned', 'merchant': '', 'tags': [], 'priority': None,
                                      'lets': [], 'fields': []})
        if profile == 'full' and rng.random() < 0.5:
            # transforms that matter: some descriptions carry a processor prefix that only the transform removes
            m['transforms'] = [['field.description', 'regex_replace(field.description, "^APLPAY\\\\s+", "")'],
                               ['field.description', 'strip_prefix(field.description, "SQ *")']][:rng.randint(1, 2)]
            rows = [rw for s in b['sources'] if not s['supplemental'] for rw in s['rows']]
            for rw in rng.sample(rows, min(len(rows), rng.randint(1, 3))):
                w = rw['desc'].split()[0].split('.')[0]
                rw['desc'] = rng.choice(['APLPAY ', 'SQ *']) + rw['desc']
                m['rules'].insert(rng.randint(0, len(m['rules'])),
                                  {'name': w.title() + ' Direct', 'match': 'startswith("%s")' % w, 'category': 'Direct', 'subcategory': 'Prefixless',
                                   'merchant': '', 'tags': ['direct'], 'priority': None, 'lets': [], 'fields': []})
            if rng.random() < 0.4:
                m['transforms'].append(['field.ref', 'extract("r(\\\\d+)")'])
            names = set()
            for k, r in enumerate(m['rules']):
                while r['name'] in names:
                    r['name'] += ' %d' % k
                names.add(r['name'])
    # views
    if profile != 'migrate' and rng.random() < 0.5:
        b['views_model'] = rf.gen_views_model(rng, rng.randint(1, 3), simple=True)
        if profile == 'full' and rng.random() < 0.4:
            # a file-level variable and a view that defines the same name for itself: each view sees its own scope
            vm = b['views_model']
            lo, hi = rng.choice([(10, 100), (100, 1000), (50, 5000)])
            vm['globals'].append(['limit', str(lo)])
            pair = [{'name': 'Large', 'filter': 'total > limit', 'description': None, 'vars': [['limit', str(hi)]]},
                    {'name': 'Notable', 'filter': 'total > limit', 'description': None, 'vars': []}]
            if rng.random() < 0.3:
                pair.append({'name': 'Huge', 'filter': 'total > limit', 'description': None, 'vars': [['limit', str(hi * 10)]]})
            rng.shuffle(pair)
            for v in pair:
                vm['views'].insert(rng.randint(0, len(vm['views'])), v)
    # settings extras
    if rng.random() < 0.2:
        b['currency_format'] = rng.choice(['€{amount}', '{amount} zl', '£{amount}'])
    if rng.random() < 0.15:
        b['output_dir'] = rng.choice(['reports', 'out/html'])
    if rng.random() < 0.15:
        b['html_filename'] = 'report.html'
    b['settings_final_newline'] = rng.random() < 0.8
    if rng.random() < 0.2:
        b['settings_comment'] = rng.choice(['# budget settings', '# see docs for views and rules',
                                            '# TODO: data_sources for the other card'])
    # bystanders
    if rng.random() < 0.5:
        b['bystanders'][b['base'] + 'notes.txt'] = 'remember to export december\n'
    if rng.random() < 0.3:
        b['bystanders'][b['base'] + 'data/old-2023.csv'] = 'Date,Description,Amount\n01/01/2023,OLD THING,1.00\n'
    if rng.random() < 0.3:
        b['bystanders'][b['base'] + 'output/spending_summary.html'] = '<html>old report</html>\n'
    if rng.random() < 0.2:
        # another settings file of the same budget: a stub, or last year's complete settings (same sources, same rules)
        b['bystanders'][b['base'] + 'config/settings-2024.yaml'] = rng.choice(['year: 2024\ndata_sources: []\n', '@copy-of-settings'])
    if rng.random() < 0.15:
        b['bystanders']['README.md'] = '# my budget\n'
    return b


def render_settings(b):
    lines = []
    if b.get('settings_comment'):
        lines.append(b['settings_comment'])
    lines.append('year: %d' % b['year'])
    lines.append('data_sources:')
    for s in b['sources']:
        lines += render_source_yaml(s)
    if b.get('merchants_file_setting'):
        lines.append('merchants_file: %s' % b['merchants_file_setting'])
    if b.get('views_file_setting'):
        lines.append('views_file: %s' % b['views_file_setting'])
    if b.get('rule_mode'):
        lines.append('rule_mode: %s' % b['rule_mode'])
    if b.get('currency_format'):
        lines.append('currency_format: %s' % _yaml_str(b['currency_format']))
    if b.get('output_dir'):
        lines.append('output_dir: %s' % b['output_dir'])
    if b.get('html_filename'):
        lines.append('html_filename: %s' % b['html_filename'])
    text = '\n'.join(lines)
    if b.get('settings_final_newline', True):
        text += '\n'
    return text


def render_budget(b, rng):
    """-> {relpath: text}.  Also fills b['rules_text'], b['views_text'] and the *_setting keys."""
    base = b['base']
    files = {}
    shared = [s for s in b['sources'] if s.get('shared')]
    for s in b['sources']:
        if not s.get('shared'):
            files[base + s['file']] = st.render(s['layout'], s['rows'])
    if shared:
        # one physical file, rendered now (descriptions may have been edited since the rows were drawn)
        allrows = sorted(((r, s['shared']) for s in shared for r in s['rows']), key=lambda x: x[0]['id'])
        lines = ['Date,Description,Debit,Credit']
        for r, col in allrows:
            cell = st.render_amount(r['value'], r['style'], '.')
            d = st.date_cell(shared[0]['layout'], r)
            desc = st._quote(r['desc'], None)
            lines.append('%s,%s,%s,' % (d, desc, cell) if col == 'debit' else '%s,%s,,%s' % (d, desc, cell))
        files[base + shared[0]['file']] = '\n'.join(lines) + '\n'

    if b['rules_kind'] == 'csv':
        files[base + 'config/merchant_categories.csv'] = rf.render_csv_rules(b['csv_rules'], rng)
    elif b['rules_kind'] == 'rules':
        lay = rf.gen_rules_layout(rng, plain=rng.random() < 0.5)
        text, _ = rf.render_rules(b['rules_model'], lay, rng)
        b['rules_text'] = text
        files[base + 'config/merchants.rules'] = text
        b['merchants_file_setting'] = 'config/merchants.rules'
    if b['views_model'] is not None:
        lay = rf.gen_rules_layout(rng, plain=rng.random() < 0.5)
        lay['hdr_indent'] = 0.0
        lay['keycase'] = 0.0
        text, _ = rf.render_views(b['views_model'], lay, rng)
        b['views_text'] = text
        files[base + 'config/views.rules'] = text
        b['views_file_setting'] = 'config/views.rules'
    files[base + 'config/settings.yaml'] = render_settings(b)
    for p, c in b['bystanders'].items():
        if c == '@copy-of-settings':
            c = files[base + 'config/settings.yaml'].replace('year: %d' % b['year'], 'year: 2024', 1)
        files[p] = c
    return files


def add_symlinks(files, b, rng, kinds=('rules-file', 'data-file', 'config-dir', 'views-file')):
    """Turns one place of a rendered budget into a symbolic link (relative target inside the world), the way synced or shared
    folders are laid out.  Keys ending in '@' are links.  Returns what was done (or None)."""
    base = b['base']
    kind = rng.choice(list(kinds))
    if kind == 'rules-file':
        k = base + 'config/merchants.rules'
        if k not in files:
            return None
        files[base + 'shared/household-rules.txt'] = files.pop(k)       # a target whose own name says nothing about its format
        files[k + '@'] = '../shared/household-rules.txt'
    elif kind == 'views-file':
        k = base + 'config/views.rules'
        if k not in files:
            return None
        files[base + 'shared/views.txt'] = files.pop(k)
        files[k + '@'] = '../shared/views.txt'
    elif kind == 'data-file':
        cands = sorted({base + s_['file'] for s_ in b['sources'] if base + s_['file'] in files})
        if not cands:
            return None
        k = rng.choice(cands)
        t = base + 'downloads/export-' + k.split('/')[-1].replace('.csv', '.txt')
        files[t] = files.pop(k)
        files[k + '@'] = '../downloads/' + t.split('/')[-1]
    else:
        pre = base + 'config/'
        moved = [k for k in files if k.startswith(pre)]
        if not moved:
            return None
        for k in moved:
            files[base + 'store/tally-config/' + k[len(pre):]] = files.pop(k)
        files[base + 'config@'] = 'store/tally-config'
    return kind
