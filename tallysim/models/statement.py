"""Reference model of a bank statement file: a table of rows rendered under a layout, and the
transactions a faithful reader must produce from it (C05 fidelity clause, C11 wiring clause).

The model never calls tally.  It knows the answer because it wrote the input.
"""
import datetime as _dt
import math

WORDS = ['NETFLIX', 'COFFEE', 'UBER', 'AMAZON', 'COSTCO', 'SHELL', 'RENT', 'PAYROLL', 'TRANSFER',
         'VANGUARD', 'SPOTIFY', 'TARGET', 'CAFÉ', 'MÜLLER', 'DELI', 'GYM', 'HULU', 'LYFT']
NOISE = ['', '.COM', ' #123', ' STORE 42', ' *TRIP', ' INC', ' SEATTLE WA', ' 800-555']

DATE_FORMATS = ['%m/%d/%Y', '%Y-%m-%d', '%d.%m.%Y', '%d/%m/%y', '%d %b %Y', '%b %d %Y']
CSV_DELIMS = [None, ';', '|', 'tab']


def _fmt_group(intpart, sep):
    s = str(intpart)
    out = ''
    while len(s) > 3:
        out = sep + s[-3:] + out
        s = s[:-3]
    return s + out


def render_amount(value, style, decimal='.'):
    """Render a number the way a bank might.  style in plain|thousands|currency|paren|space."""
    neg = value < 0
    if style == 'plain3':
        # three decimals (fuel, FX, some currencies): written and read exactly
        mills = int(round(abs(value) * 1000))
        return ('-' if neg else '') + '%d%s%03d' % (mills // 1000, decimal, mills % 1000)
    cents = int(round(abs(value) * 100))
    ip, fp = divmod(cents, 100)
    tsep = ',' if decimal == '.' else '.'
    if style == 'thousands':
        body = _fmt_group(ip, tsep) + decimal + '%02d' % fp
    elif style == 'space' and decimal == ',':
        body = _fmt_group(ip, ' ') + decimal + '%02d' % fp
    else:
        body = str(ip) + decimal + '%02d' % fp
    if style in ('thousands-paren', 'thousands-cur'):
        body = _fmt_group(ip, tsep) + decimal + '%02d' % fp
    if style in ('currency', 'cur-neg', 'paren-cur', 'thousands-cur'):
        body = '$' + body
    elif style in ('euro-odd', 'pound-odd') and ip >= 10:
        body = ('€' if style == 'euro-odd' else '£') + str(ip)[:-1] + tsep + str(ip)[-1] + decimal + '%02d' % fp
    elif style in ('euro', 'euro-odd'):
        body = '€' + body
    elif style in ('pound', 'pound-odd'):
        body = '£' + body
    elif style == 'yen-space' and not neg:
        body = '¥ ' + body           # symbol, blank, number (only unsigned: "- 5" is not a number anywhere)
    if style in ('paren', 'paren-cur', 'thousands-paren') and neg:
        return '(' + body + ')'
    if style == 'int' and fp == 0:
        body = str(ip)
    if style == 'neg-cur' and neg:
        return '$-' + body           # currency symbol before the sign
    if style == 'plus' and not neg:
        return '+' + body
    if style == 'padded':
        return '  ' + ('-' if neg else '') + body + ' '
    return ('-' if neg else '') + body


def gen_rows(rng, n, first_id=1, year=2025, allow_rich=False, neg_rate=0.2, profile=None):
    rows = []
    for k in range(n):
        rid = first_id + k
        w = rng.choice(WORDS)
        desc = '%s%s r%d' % (w, rng.choice(NOISE), rid)
        if allow_rich and rng.random() < 0.25:
            desc = rng.choice(['"%s"' % desc, desc + ', LLC', 'A;B|%s' % desc, "O'%s" % desc,
                               desc + '\tX', '  %s  ' % desc, desc + ' "Q"'])
        month = rng.randint(1, 12)
        day = rng.randint(1, 28)
        val = rng.choice([rng.randint(1, 99999) / 100.0, rng.randint(100, 999999) / 100.0,
                          float(rng.randint(1, 500))])
        if rng.random() < neg_rate:
            val = -val
        three = rng.random() < 0.12
        if three:
            val = rng.choice([rng.randint(1, 9) / 1000.0, rng.randint(1001, 99999) / 1000.0, 1.254, 0.004]) * (-1 if val < 0 else 1)
        rows.append({
            'id': rid,
            'date': [year, month, day],
            'desc': desc,
            'value': val,
            'style': rng.choice(['plain', 'plain', 'thousands', 'currency', 'paren', 'euro', 'space', 'int'] if not allow_rich else
                                ['plain', 'thousands', 'currency', 'paren', 'euro', 'space', 'int', 'pound', 'yen-space', 'cur-neg',
                                 'paren-cur', 'thousands-paren', 'thousands-cur', 'neg-cur', 'plus', 'padded']),
            'caps': {},
            'loc': rng.choice(['', 'WA', 'Seattle', 'NY']),
        })
        if three:
            rows[-1]['style'] = 'plain3'
        elif rows[-1]['style'] in ('euro', 'pound') and abs(val) >= 10 and rid % 2:
            # a grouping separator in an odd place (an export that groups by hundreds, a hand-edited cell): dropped wherever it
            # stands, the value is what the digits say.  (Chosen by the row number, not drawn.)
            rows[-1]['style'] += '-odd'
    if allow_rich and n >= 3 and (rng.random() < 0.25 or profile):
        # a statement in which nearly every description carries the same punctuation: apostrophe-wrapped words, semicolons, bars,
        # backslashes (what guesses a file's dialect from character frequencies would latch on to) - plus one cell that really
        # needs its quotes.  All of it is ordinary description text.
        prof = rng.choice(['apostrophes', 'apostrophes', 'semicolons', 'bars', 'backslashes', 'tabs'])
        prof = profile or prof
        for r in rows:
            if rng.random() < 0.85:
                tail = ' r%d' % r['id']
                body = r['desc'][:-len(tail)] if r['desc'].endswith(tail) else r['desc']
                r['desc'] = {'apostrophes': rng.choice(["TOYS 'R' US", "PICK 'N' SAVE", "'" + body.strip('"') + "'"]),
                             'semicolons': 'POS; ' + body, 'bars': 'CARD | ' + body, 'backslashes': 'C:\\PAY\\' + body.strip(),
                             'tabs': 'REF\t' + body}[prof] + tail
        k = rng.randrange(len(rows))
        tail = ' r%d' % rows[k]['id']
        rows[k]['desc'] = rng.choice(['ACME SUPPLY, INC', 'SMITH, JONES & CO', 'A, B']) + tail
        for r in rows:
            r['style'] = r['style'].replace('-odd', '')      # (that one cell stays the only one that needs its quotes)
    return rows


def gen_layout(rng, rich=False, simple=False, delimiter=Ellipsis):
    """A column layout + file conventions."""
    lay = {
        'mode': 1,                  # 1: {description} (+extra fields); 2: captures + template
        'date_format': rng.choice(DATE_FORMATS[:3] if simple else DATE_FORMATS),
        'delimiter': None if simple else rng.choice(CSV_DELIMS + ([None] if not rich else ['regex'])),
        'has_header': rng.random() < 0.7,
        # with has_header the first line is skipped, whatever it looks like
        'header_style': rng.choice([None, None, None, None, 'short', 'title', 'long']),
        'decimal': rng.choice(['.', '.', ',']),
        'sign': rng.choice(['', '', '-', '+']),
        'negate_setting': False,
        'eol': '\n' if rng.random() < 0.8 else '\r\n',
        'final_newline': rng.random() < 0.8,
        'extras': [],               # names of extra capture columns
        'skips': 0,
        'location': False,
        'template': None,
    }
    if delimiter is not Ellipsis:
        lay['delimiter'] = delimiter
    if rng.random() < (0.15 if lay['sign'] == '' else 0.25):
        # `negate_amount: true` in the source's settings entry.  Together with {-amount} it says the same thing twice (one flip);
        # together with {+amount} the format string's "made absolute" stands (C05: "made absolute for {+amount}").
        lay['negate_setting'] = True
    if lay['delimiter'] == 'regex':
        # regex rows: date desc amount separated by 2+ spaces; keep it to the three basic columns
        lay['date_format'] = rng.choice(DATE_FORMATS[:4])
        lay['cols'] = ['date', 'description', 'amount']
        return lay
    if not simple:
        lay['skips'] = rng.choice([0, 0, 1, 2])
        lay['location'] = rng.random() < 0.2
        r = rng.random()
        if r < 0.25:
            lay['extras'] = rng.sample(['card', 'memo', 'type'], rng.randint(1, 2))
        elif r < 0.45:
            lay['mode'] = 2
            lay['extras'] = rng.sample(['payee', 'kind', 'memo'], rng.randint(1, 3))
            tmpl = ' - '.join('{%s}' % e for e in lay['extras'])
            if rng.random() < 0.5:
                tmpl = 'TX ' + tmpl
            lay['template'] = tmpl
    cols = ['date', 'amount']
    if lay['mode'] == 1:
        cols.append('description')
    cols += ['cap:' + e for e in lay['extras']]
    if lay['location']:
        cols.append('location')
    cols += ['skip'] * lay['skips']
    rng.shuffle(cols)
    lay['cols'] = cols
    return lay


def format_string(lay):
    parts = []
    for c in lay['cols']:
        if c == 'date':
            parts.append('{date:%s}' % lay['date_format'])
        elif c == 'amount':
            parts.append('{%samount}' % lay['sign'])
        elif c == 'description':
            parts.append('{description}')
        elif c == 'location':
            parts.append('{location}')
        elif c == 'skip':
            parts.append('{_}')
        elif c.startswith('cap:'):
            parts.append('{%s}' % c[4:])
    return ','.join(parts)


def regex_delimiter(lay):
    return r'regex:^(\S+)\s{2,}(.+?)\s{2,}(\S+)$'


def source_settings(lay, name, file, supplemental=False):
    """The data_sources entry (a dict to be rendered as YAML)."""
    s = {'name': name, 'file': file, 'format': format_string(lay)}
    if lay['delimiter'] == 'regex':
        s['delimiter'] = regex_delimiter(lay)
    elif lay['delimiter'] is not None:
        s['delimiter'] = lay['delimiter']
    if not lay['has_header']:
        s['has_header'] = False
    if lay['decimal'] != '.':
        s['decimal_separator'] = lay['decimal']
    if lay['negate_setting']:
        s['negate_amount'] = True
    if lay['template']:
        s['columns'] = {'description': lay['template']}
    if supplemental:
        s['supplemental'] = True
    return s


def fill_caps(rng, lay, rows):
    for r in rows:
        r['caps'] = {}
        for e in lay['extras']:
            r['caps'][e] = rng.choice(['ACH', 'WIRE', 'Alice', 'Bob', 'VISA 1234', 'POS', 'Ref 77']) \
                if lay['mode'] == 1 else '%s %s' % (rng.choice(WORDS), e.upper())
        if lay['mode'] == 2:
            # carry the row id in one capture so that every transaction is attributable
            k = lay['extras'][0]
            r['caps'][k] = r['caps'][k] + ' r%d' % r['id']
            if rng.random() < 0.3:
                # a cell is data: text that looks like a placeholder of this very template stays what it is
                other = rng.choice(lay['extras'][1:] or lay['extras'])      # (preferably the placeholder of a capture filled in later)
                r['caps'][k] = r['caps'][k] + rng.choice([' {%s}' % other, ' {x}', ' {{braces}}', ' %s $1 \\1', ' {0}'])
        elif lay['extras'] and rng.random() < 0.05:
            r['caps'][lay['extras'][0]] = r['caps'][lay['extras'][0]] + ' {description}'


def date_cell(lay, row):
    y, m, d = row['date']
    return _dt.date(y, m, d).strftime(lay['date_format'])


def amount_cell(lay, row):
    if row.get('amount_text') is not None:
        return row['amount_text']       # a cell text fixed by the test (e.g. copied from another convention)
    style = row['style']
    if style == 'space' and lay['decimal'] != ',':
        style = 'plain'
    if lay['delimiter'] == 'regex' and style in ('space', 'yen-space', 'padded'):
        style = 'plain'
    return render_amount(row['value'], style, lay['decimal'])


def _quote(cell, delim):
    d = {None: ',', 'tab': '\t'}.get(delim, delim)
    if any(ch in cell for ch in (d, '"', '\n', '\r')):
        return '"' + cell.replace('"', '""') + '"'
    return cell


def row_cells(lay, row):
    cells = []
    for c in lay['cols']:
        if c == 'date':
            cells.append(date_cell(lay, row))
        elif c == 'amount':
            cells.append(amount_cell(lay, row))
        elif c == 'description':
            cells.append(row['desc'])
        elif c == 'location':
            cells.append(row['loc'])
        elif c == 'skip':
            cells.append('x%d' % row['id'])
        elif c.startswith('cap:'):
            cells.append(row['caps'].get(c[4:], ''))
    return cells


def join_cells(lay, cells):
    if lay['delimiter'] == 'regex':
        return '   '.join(cells)
    d = {None: ',', 'tab': '\t'}.get(lay['delimiter'], lay['delimiter'])
    return d.join(_quote(c, lay['delimiter']) for c in cells)


def header_line(lay):
    names = []
    for c in lay['cols']:
        names.append({'date': 'Date', 'amount': 'Amount', 'description': 'Description',
                      'location': 'Location', 'skip': 'Other'}.get(c, c[4:].title() if c.startswith('cap:') else c))
    style = lay.get('header_style')
    if style == 'short' and len(names) > 2:
        names = names[:max(2, len(names) - 2)]        # the bank names fewer columns than its rows have (trailing columns unnamed)
    elif style == 'title':
        return 'Account statement 2025'                # a title line where the column names would be: one line, skipped like any header
    elif style == 'long':
        names = names + ['Balance', 'Notes']           # ... or more columns than the rows have
    return join_cells(lay, names)


def render_lines(lay, rows):
    """List of physical record strings (header first when present); one per row."""
    lines = []
    if lay['has_header']:
        lines.append(header_line(lay))
    for r in rows:
        lines.append(r.get('raw') if r.get('raw') is not None else join_cells(lay, row_cells(lay, r)))
    return lines


def render(lay, rows):
    lines = render_lines(lay, rows)
    text = lay['eol'].join(lines)
    if lay['final_newline'] and lines:
        text += lay['eol']
    return text


def expected_amount(lay, row):
    v = row['value']
    if lay['sign'] == '+':
        v = abs(v)
    elif lay['sign'] == '-' or lay['negate_setting']:
        v = -v
    return v


def expected_description(lay, row):
    if lay['mode'] == 1:
        return row['desc'].strip()
    caps = {k: v.strip() for k, v in row['caps'].items()}
    return lay['template'].format(**caps)


def expected_txn(lay, row, source):
    """What a faithful reader yields for a well-formed row; None when the row must be skipped."""
    if row.get('raw') is not None:
        return None          # a damaged line (written as given): skipped on its own
    v = expected_amount(lay, row)
    if v == 0 or not math.isfinite(v):
        return None
    desc = expected_description(lay, row)
    if not desc:
        return None
    y, m, d = row['date']
    field = None
    if lay['extras']:
        field = {k: row['caps'].get(k, '').strip() for k in lay['extras']}
    return {'id': row['id'], 'date': '%04d-%02d-%02d' % (y, m, d), 'description': desc,
            'amount': round(v, 6), 'source': source, 'field': field}
