"""Reference model of what `tally up` must report for a budget model (C11).

Independent of load_config / resolve_source_format / cmd_run / analyze_transactions: transactions
come from the rows that were written (models/statement.py); classification is obtained by handing
the rule text, rule mode, transforms and supplemental rows *explicitly* to the engine (C01/C02/C09
trusted); totals, months and view membership are recomputed here from tags and signs.
"""
import json

from . import statement as st


def expected_transactions(b, failing=()):
    """Transactions in processing order: sources in settings order, rows in file order."""
    out = []
    for s in b['sources']:
        if s['supplemental'] or s['name'] in failing:
            continue
        for r in s['rows']:
            t = st.expected_txn(s['layout'], r, s['name'])
            if t is not None:
                out.append(t)
    return out


def supplemental_rows(b):
    """Typed row dicts keyed by lower-cased source name (dates as ISO strings here; converted in-process)."""
    out = {}
    for s in b['sources']:
        if not s['supplemental']:
            continue
        rows = []
        for r in s['rows']:
            y, m, d = r['date']
            rows.append({'date': '%04d-%02d-%02d' % (y, m, d), 'description': r['desc'].strip(),
                         'amount': round(r['value'], 3 if r.get('style') == 'plain3' else 2)})
        if rows:
            out[s['name'].lower()] = rows
    return out


def classify_with_engine(kind, rules_text, csv_path, mode, txns, supp):
    """Runs inside a simulated process.  Returns [(merchant, category, subcategory, sorted tags)]."""
    import datetime
    from tally import merchant_engine as me, merchant_utils as mu
    rows = {}
    for name, rs in (supp or {}).items():
        rows[name] = []
        for r in rs:
            y, m, d = (int(x) for x in r['date'].split('-'))
            rows[name].append({'date': datetime.date(y, m, d), 'description': r['description'], 'amount': r['amount']})
    out = []
    eng = None
    legacy = None
    if kind == 'rules':
        eng = me.parse_merchants(rules_text, match_mode=mode)
    elif kind == 'csv':
        legacy = mu.get_all_rules(csv_path, match_mode=mode)
    for t in txns:
        y, m, d = (int(x) for x in t['date'].split('-'))
        date = datetime.date(y, m, d)
        if eng is not None:
            txn = {'description': t['description'], 'amount': t['amount'], 'field': dict(t['field']) if t['field'] else None,
                   'source': t['source'], 'location': None, 'date': date}
            mu.apply_transforms(txn, eng.transforms)
            r = eng.match(txn, data_sources=rows)
            if r.matched:
                out.append([r.merchant, r.category, r.subcategory, sorted(r.tags)])
            else:
                out.append([mu.extract_merchant_name(txn['description']), 'Unknown', 'Unknown', sorted(r.tags)])
        elif legacy is not None:
            mm, c, s_, info = mu.normalize_merchant(t['description'], legacy, amount=t['amount'], txn_date=date,
                                                    field=dict(t['field']) if t['field'] else None, data_source=t['source'],
                                                    transforms=None, data_sources=rows)
            out.append([mm, c, s_, sorted((info or {}).get('tags', []))])
        else:
            out.append([mu.extract_merchant_name(t['description']), 'Unknown', 'Unknown', []])
    return out


SPECIAL = ('income', 'investment', 'transfer')


def effective(amount, tags):
    tl = {t.lower() for t in tags}
    if 'income' in tl or 'investment' in tl:
        return abs(amount)
    return amount


def totals(txns, cls):
    t = {'incomeTotal': 0.0, 'spendingTotal': 0.0, 'creditsTotal': 0.0, 'transfersIn': 0.0, 'transfersOut': 0.0,
         'investmentTotal': 0.0}
    for x, c in zip(txns, cls):
        tl = {g.lower() for g in c[3]}
        a = x['amount']
        if 'income' in tl:
            t['incomeTotal'] += abs(a)
        elif 'investment' in tl:
            t['investmentTotal'] += abs(a)
        elif 'transfer' in tl:
            if a > 0:
                t['transfersIn'] += a
            else:
                t['transfersOut'] += abs(a)
        elif a > 0:
            t['spendingTotal'] += a
        else:
            t['creditsTotal'] += abs(a)
    t['cashFlow'] = t['incomeTotal'] - t['spendingTotal'] + t['creditsTotal']
    t['transfersNet'] = t['transfersIn'] - t['transfersOut']
    return t


def merchants(txns, cls):
    """{merchant: {'category','subcategory' (of the last transaction), 'tags' (union), 'txns': [...]}} in first-seen order."""
    out = {}
    for x, c in zip(txns, cls):
        m = out.setdefault(c[0], {'category': '', 'subcategory': '', 'tags': set(), 'txns': []})
        m['category'], m['subcategory'] = c[1], c[2]
        m['tags'].update(c[3])
        m['txns'].append({'id': x['id'], 'month': x['date'][:7], 'amount': effective(x['amount'], c[3]), 'tags': sorted(c[3]),
                          'source': x['source'], 'category': c[1], 'subcategory': c[2]})
    return out


def view_membership(views_model, merch):
    """For the filter forms the generator uses.  Merchants carrying a special tag are not offered to views."""
    import re
    res = {}
    for v in views_model['views']:
        members = []
        f = v['filter']
        # numeric variables: the file's own, shadowed by the view's
        env = {n: e for n, e in (views_model.get('globals') or []) if re.match(r'^\d+$', e)}
        env.update({n: e for n, e in (v.get('vars') or []) if re.match(r'^\d+$', e)})
        for n, e in env.items():
            f = re.sub(r'\b%s\b' % re.escape(n), e, f)
        for name, m in merch.items():
            if {t.lower() for t in m['tags']} & set(SPECIAL):
                continue
            total = sum(t['amount'] for t in m['txns'])
            months = len({t['month'] for t in m['txns']})
            ok = None
            mo = re.match(r'^category == "(.*)"$', f)
            if mo:
                ok = m['category'].lower() == mo.group(1).lower()
            mo = re.match(r'^total > (\d+)$', f)
            if mo:
                ok = total > int(mo.group(1))
            mo = re.match(r'^months >= (\d+)$', f)
            if mo:
                ok = months >= int(mo.group(1))
            mo = re.match(r'^"(.*)" in tags$', f)
            if mo:
                ok = mo.group(1).lower() in {t.lower() for t in m['tags']}
            if ok is None:
                raise ValueError('view filter form not modelled: %r' % f)
            if ok:
                members.append(name)
        res[v['name']] = sorted(members)
    return res


def extract_spending_data(html):
    key = 'window.spendingData = '
    i = html.find(key)
    if i < 0:
        return None
    return json.JSONDecoder().raw_decode(html[i + len(key):])[0]
