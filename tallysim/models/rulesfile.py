"""Reference models of rule files: legacy CSV rules, merchants.rules, views.rules.

A model is a plain structure; `render_*` writes it under a seeded layout; the structure is what a
structural reader must get back (C17 layout clause) and what C11/C15 worlds are built from.
"""
from .statement import WORDS

CATS = [('Subscriptions', 'Streaming'), ('Food', 'Coffee'), ('Transport', 'Rideshare'),
        ('Shopping', 'Online'), ('Food', 'Grocery'), ('Transport', 'Gas'), ('Housing', 'Rent'),
        ('Income', 'Salary'), ('Transfers', 'Internal'), ('Savings', 'Retirement'),
        ('Health', 'Gym'), ('Travel', 'Hotel')]
TAGS = ['recurring', 'business', 'fun', 'essential', 'income', 'transfer', 'investment', 'refund']


DYNAMIC_TAGS = ['{extract(field.memo, "PROJ:(\\\\w+)")}', '{split(description, " ", 0)}', '{split(field.holder, trim(" "), 0)}',
                '{lowercase(extract("(\\\\w+) r"))}', '{extract(description, "(A|B),(C)")}', '{regex_replace(description, "(\\\\d+), (\\\\d+)", "")}',
                '{source}', '{substring(description, 0, 3)}']

# comment lines that look like something else or end in characters a sloppy line reader trips over
TRICKY_COMMENTS = ['# exported from C:\\Users\\me\\budget\\', '# trailing backslash \\', '#', '#=', '# a = b', '# [Fake Section]',
                   '# priority: high', '# "unbalanced', "# it's", '# tab\there', '# caf\u00e9 \u2013 notes', '#\\', '# filter:', '# x: y: z',
                   '# line with trailing blanks   ', '## double', '#!shebang-like', '# 100% (percent) {braces} [brackets]',
                   # one physical line each: only \n (and \r\n) end a line in these files
                   '# page break\x0ccategory: Junk', '# pasted from the web\u2028filter: False', '# nel\x85priority: x',
                   '# ps\u2029[Ghost]', '# vt\x0bmatch: contains("X")', '# fs\x1cbogus: 1']

# ----------------------------------------------------------------------------- legacy CSV

def gen_csv_rules(rng, n, safe=True):
    """Rules whose migration to .rules is expected to be classification-preserving."""
    items = []
    for _ in range(n):
        w = rng.choice(WORDS)
        r = rng.random()
        if r < 0.5:
            pat = w
        elif r < 0.65:
            pat = '%s|%s' % (w, rng.choice(WORDS))
        elif r < 0.8:
            pat = '^' + w
        else:
            pat = w[:3] + '.*' + w[-1]
        m = rng.random()
        if m < 0.15:
            pat += '[amount>%d]' % rng.choice([5, 50, 200])
        elif m < 0.25:
            pat += '[amount:%d-%d]' % (rng.choice([1, 10]), rng.choice([100, 5000]))
        elif m < 0.33:
            pat += '[month=%d]' % rng.randint(1, 12)
        elif m < 0.38:
            pat += '[amount<%d]' % rng.choice([0, 20])
        cat, sub = rng.choice(CATS)
        tags = rng.sample(TAGS, rng.choice([0, 0, 1, 2]))
        merchant = w.title() + rng.choice(['', '', ' Inc', ' Co'])
        items.append({'pattern': pat, 'merchant': merchant, 'category': cat, 'subcategory': sub, 'tags': tags})
    return items


def render_csv_rules(items, rng=None, tags_col=None):
    if tags_col is None:
        tags_col = any(i['tags'] for i in items)
    lines = []
    if rng is not None and rng.random() < 0.3:
        lines.append('# my rules')
    lines.append('Pattern,Merchant,Category,Subcategory' + (',Tags' if tags_col else ''))
    for it in items:
        if rng is not None and rng.random() < 0.15:
            lines.append(rng.choice(['', '# ' + it['merchant']]))
        row = [it['pattern'], it['merchant'], it['category'], it['subcategory']]
        if tags_col:
            row.append('|'.join(it['tags']))
        lines.append(','.join(_csvq(c) for c in row))
    return '\n'.join(lines) + '\n'


def _csvq(c):
    if any(ch in c for ch in ',"\n'):
        return '"' + c.replace('"', '""') + '"'
    return c


# ----------------------------------------------------------------------------- merchants.rules

def gen_match(rng, words=None, fields=(), sources=(), simple=False):
    words = words or WORDS
    w = rng.choice(words)
    atoms = [
        'contains("%s")' % w,
        'contains("%s")' % w,
        'regex("%s")' % (w[:3] + '.*' + w[-1]),
        'startswith("%s")' % w,
        'anyof("%s", "%s")' % (w, rng.choice(words)),
        '"%s" in description' % w,
        'normalized("%s")' % w.replace(' ', ''),
    ]
    e = rng.choice(atoms[:2] if simple else atoms)
    r = rng.random()
    if simple:
        return e
    if r < 0.2:
        e += ' and amount > %d' % rng.choice([5, 50, 200])
    elif r < 0.3:
        e += ' and month == %d' % rng.randint(1, 12)
    elif r < 0.38:
        e += ' or contains("%s")' % rng.choice(words)
    elif r < 0.44:
        e = '(%s) and not contains("%s")' % (e, rng.choice(words))
    elif r < 0.5 and fields:
        e += ' and field.%s == "%s"' % (rng.choice(list(fields)), rng.choice(['ACH', 'WIRE', 'Alice']))
    elif r < 0.56 and sources:
        e += ' and source == "%s"' % rng.choice(list(sources))
    elif r < 0.6:
        e += ' and amount < 0'
    return e


def gen_rules_model(rng, n, fields=(), sources=(), simple=False, supplemental=None):
    model = {'variables': [], 'transforms': [], 'rules': []}
    if not simple and rng.random() < 0.3:
        model['variables'].append(['is_large', 'amount > %d' % rng.choice([100, 500])])
    if not simple and rng.random() < 0.25:
        model['transforms'].append(['field.description',
                                    rng.choice(['regex_replace(field.description, "^APLPAY\\\\s+", "")',
                                                'strip_prefix(field.description, "SQ *")',
                                                'regex_replace(field.description, "\\\\s+#\\\\d+", "")'])])
    names = set()
    for k in range(n):
        w = rng.choice(WORDS)
        name = w.title()
        while name in names:
            name = name + ' %d' % k
        names.add(name)
        cat, sub = rng.choice(CATS)
        rule = {'name': name, 'match': gen_match(rng, [w] + WORDS[:4], fields, sources, simple),
                'category': cat, 'subcategory': sub, 'merchant': '', 'tags': [], 'priority': None,
                'lets': [], 'fields': []}
        r = rng.random()
        if r < 0.15:
            rule['category'] = ''
            rule['subcategory'] = ''
            rule['tags'] = rng.sample(TAGS, rng.randint(1, 2))
        elif r < 0.45:
            rule['tags'] = rng.sample(TAGS, rng.randint(1, 2))
        if not simple:
            if rng.random() < 0.2:
                rule['merchant'] = name + ' Store'
            if rng.random() < 0.2:
                # a value is the rest of its line, whatever it contains: characters that mean something in YAML, INI, shells or CSV
                # (a `#` after a blank, `;`, `:`, `=`, quotes, brackets, a trailing backslash) are part of the value here
                rule['merchant'] = rng.choice([name + ' #4411', '#1 ' + name, name + ': Mobile', name + ' "R" Us', name + "'s", 'A = ' + name,
                                               '[' + name + ']', name + ' ; drop', name + ' \\', name + ' {x}', name + ' // ' + name])
            if rng.random() < 0.12 and rule['category']:
                rule['category'], rule['subcategory'] = rng.choice([('Food & Drink', 'Misc #2'), ('Bills: Utilities', 'Gas; Water'), ('Misc #2', 'A = B'),
                                                                    ("Kids' Stuff", '"Quoted"'), ('Work [US]', 'Travel #1')])
            if rng.random() < 0.12:
                rule['tags'] = rule['tags'] + [rng.choice(['#deductible', 'tax:2025', 'q1=yes', "kids'", 'a;b', 'x #y'])]
            if rng.random() < 0.15:
                rule['priority'] = rng.choice([10, 60, 100])
            if rng.random() < 0.15:
                rule['subcategory'] = ''
            if rng.random() < 0.15 and model['variables']:
                rule['match'] += ' and is_large'
            if rng.random() < 0.12:
                rule['lets'].append(['big', 'amount > 50'])
                rule['match'] = '(%s) and (big or not big)' % rule['match']
            if rng.random() < 0.12:
                rule['fields'].append(['code', 'extract("r(\\\\d+)")'])
            if rng.random() < 0.1 and fields:
                rule['tags'] = rule['tags'] + ['{field.%s}' % rng.choice(list(fields))]
            if rng.random() < 0.15:
                # a dynamic tag is one tag, whatever commas and parenthesised groups its expression contains
                rule['tags'] = rule['tags'] + [rng.choice(DYNAMIC_TAGS)]
            if supplemental and rng.random() < 0.25:
                rule['match'] = '(%s) and any(r.amount == txn.amount for r in %s)' % (rule['match'], supplemental)
        model['rules'].append(rule)
    return model


def gen_rules_layout(rng, plain=False):
    if plain:
        return {'crlf': False, 'comments': 0.0, 'blanks': 0.0, 'trail': 0.0, 'indent': 0.0,
                'shuffle': False, 'keycase': 0.0, 'hdr_indent': 0.0, 'final_newline': True}
    return {'crlf': rng.random() < 0.2, 'comments': rng.choice([0.0, 0.2, 0.5]),
            'blanks': rng.choice([0.0, 0.3]), 'trail': rng.choice([0.0, 0.4]),
            'indent': rng.choice([0.0, 0.5, 1.0]), 'shuffle': rng.random() < 0.6,
            'keycase': rng.choice([0.0, 0.0, 0.5]), 'hdr_indent': rng.choice([0.0, 0.0, 0.5]),
            'final_newline': rng.random() < 0.8}


def rule_prop_lines(rule):
    """[(key, value)] in canonical order."""
    props = []
    for n, e in rule['lets']:
        props.append(('let', '%s = %s' % (n, e)))
    props.append(('match', rule['match']))
    if rule['category']:
        props.append(('category', rule['category']))
    if rule['subcategory']:
        props.append(('subcategory', rule['subcategory']))
    if rule['merchant']:
        props.append(('merchant', rule['merchant']))
    if rule['tags']:
        props.append(('tags', ', '.join(rule['tags'])))
    if rule['priority'] is not None:
        props.append(('priority', str(rule['priority'])))
    for n, e in rule['fields']:
        props.append(('field', '%s = %s' % (n, e)))
    return props


def _shuffle_keep(rng, props):
    """Permute the property lines, keeping let lines (and field lines) in their relative order."""
    idx = list(range(len(props)))
    rng.shuffle(idx)
    out = [props[i] for i in idx]
    for key in ('let', 'field'):
        pos = [i for i, p in enumerate(out) if p[0] == key]
        orig = [p for p in props if p[0] == key]
        for i, p in zip(pos, orig):
            out[i] = p
    return out


def render_rules(model, lay, rng):
    """Returns (text, linemap) where linemap[('rule', i, 'header'|key, j)] = 1-based line number."""
    lines = []
    linemap = {}

    def noise():
        if rng.random() < lay['comments']:
            lines.append(rng.choice(['# note', '  # indented comment', '#[NotARule]', '# match: contains("X")'] + TRICKY_COMMENTS))
        if rng.random() < lay['blanks']:
            lines.append(rng.choice(['', '   ', '\t']))

    def emit(text, key):
        if rng.random() < lay['trail']:
            text += rng.choice([' ', '  ', '\t'])
        lines.append(text)
        linemap[key] = len(lines)

    noise()
    for j, (n, e) in enumerate(model['variables']):
        emit('%s = %s' % (n, e), ('var', j))
        noise()
    for j, (n, e) in enumerate(model['transforms']):
        emit('%s = %s' % (n, e), ('transform', j))
        noise()
    for i, rule in enumerate(model['rules']):
        hdr = '[%s]' % rule['name']
        if rng.random() < lay['hdr_indent']:
            hdr = rng.choice(['  ', '\t']) + hdr
        emit(hdr, ('rule', i, 'header', 0))
        props = rule_prop_lines(rule)
        if lay['shuffle']:
            props = _shuffle_keep(rng, props)
        counts = {}
        for key, val in props:
            if rng.random() < lay['comments'] / 2:
                lines.append('# c')
            k = key
            if rng.random() < lay['keycase']:
                k = rng.choice([key.upper(), key.title()])
            ind = rng.choice(['  ', '    ', '\t']) if rng.random() < lay['indent'] else ''
            sp = rng.choice([' ', ' ', '', '  '])
            j = counts.get(key, 0)
            counts[key] = j + 1
            emit('%s%s:%s%s' % (ind, k, sp, val), ('rule', i, key, j))
        noise()
        if rng.random() < 0.7:
            lines.append('')
    eol = '\r\n' if lay['crlf'] else '\n'
    text = eol.join(lines)
    if lay['final_newline']:
        text += eol
    return text, linemap


def expected_engine(model):
    """The structure parse_merchants must return for the model (names/keys lower-cased as documented)."""
    return {
        'variables': {n.lower(): e for n, e in model['variables']},
        'transforms': [[n, e] for n, e in model['transforms']],
        'rules': [{
            'name': r['name'], 'match_expr': r['match'], 'category': r['category'],
            'subcategory': r['subcategory'], 'merchant': r['merchant'] or r['name'],
            'tags': sorted(set(r['tags'])), 'priority': 50 if r['priority'] is None else r['priority'],
            'let_bindings': [[n.lower(), e] for n, e in r['lets']],
            'fields': {n.lower(): e for n, e in r['fields']},
        } for r in model['rules']],
    }


# ----------------------------------------------------------------------------- views.rules

def gen_views_model(rng, n, cats=None, simple=False):
    cats = cats or [c for c, _ in CATS]
    model = {'globals': [], 'views': []}
    if not simple and rng.random() < 0.3:
        model['globals'].append(['big', 'total > %d' % rng.choice([50, 500])])
    names = set()
    for k in range(n):
        form = rng.choice(['cat', 'total', 'months', 'tag'] + ([] if simple else ['sub', 'global', 'local']))
        local = []
        if form == 'cat':
            c = rng.choice(cats)
            name, flt = '%s view' % c, 'category == "%s"' % c
        elif form == 'total':
            t = rng.choice([10, 100, 1000])
            name, flt = 'Over %d' % t, 'total > %d' % t
        elif form == 'months':
            m = rng.choice([1, 2, 3])
            name, flt = 'Months %d' % m, 'months >= %d' % m
        elif form == 'tag':
            t = rng.choice(TAGS)
            name, flt = 'Tagged %s' % t, '"%s" in tags' % t
        elif form == 'sub':
            s = rng.choice(CATS)[1]
            name, flt = 'Sub %s' % s, 'subcategory == "%s"' % s
        elif form == 'global' and model['globals']:
            name, flt = 'Big ones', 'big'
        else:
            name, flt = 'Local', 'avgp > 10'
            local = [['avgp', 'sum(payments) / count(payments)']]
        while name in names:
            name += ' %d' % k
        names.add(name)
        model['views'].append({'name': name, 'filter': flt, 'description': rng.choice([None, None, 'A view', 'Path C:\\tmp\\', 'has: colon = equals', '[bracketed]', '# not a comment']),
                               'vars': local})
    return model


def render_views(model, lay, rng):
    lines = []
    linemap = {}

    def noise():
        if rng.random() < lay['comments']:
            lines.append(rng.choice(['# note', '  # indented', '# filter: total > 1'] + TRICKY_COMMENTS))
        if rng.random() < lay['blanks']:
            lines.append(rng.choice(['', '  ']))

    def emit(text, key):
        if rng.random() < lay['trail']:
            text += rng.choice([' ', '  '])
        lines.append(text)
        linemap[key] = len(lines)

    noise()
    for j, (n, e) in enumerate(model['globals']):
        emit('%s = %s' % (n, e), ('global', j))
        noise()
    for i, v in enumerate(model['views']):
        emit('[%s]' % v['name'], ('view', i, 'header', 0))
        props = []
        if v['description']:
            props.append(('description', 'description: ' + v['description']))
        for j, (n, e) in enumerate(v['vars']):
            props.append(('var%d' % j, '%s = %s' % (n, e)))
        props.append(('filter', 'filter: ' + v['filter']))
        if lay['shuffle']:
            # variables are only stored, evaluated in stored order: keep their relative order
            idx = list(range(len(props)))
            rng.shuffle(idx)
            sh = [props[i] for i in idx]
            pos = [i for i, p in enumerate(sh) if p[0].startswith('var')]
            orig = [p for p in props if p[0].startswith('var')]
            for i_, p in zip(pos, orig):
                sh[i_] = p
            props = sh
        for key, text in props:
            ind = rng.choice(['  ', '\t']) if rng.random() < lay['indent'] else ''
            emit(ind + text, ('view', i, key, 0))
        noise()
        if rng.random() < 0.7:
            lines.append('')
    eol = '\r\n' if lay['crlf'] else '\n'
    text = eol.join(lines)
    if lay['final_newline']:
        text += eol
    return text, linemap


def expected_views(model):
    return {'globals': {n: e for n, e in model['globals']},
            'views': [{'name': v['name'], 'filter': v['filter'], 'description': v['description'],
                       'variables': {n: e for n, e in v['vars']}} for v in model['views']]}
