"""Check driver: seeds -> runs -> violations -> shrink -> replay file -> VIOLATION / KNOWN-FINDING.

A property module provides
    ID, LEVEL, RULE, ASSUMPTIONS, COMPONENTS
    runs(tier) -> int
    run_one(seed, i, tier, scratch) -> {'violations': [...], 'count': {k: n}, 'sets': {name: [str]},
                                        'samples': [...], 'digest': str}
    replay(schedule, scratch)       -> {'violations': [...], 'digest': str}
    shrink_candidates(schedule)     -> iterator of smaller schedules           (optional)
Each violation: {'invariant', 'signature': {...}, 'witness': str, 'schedule': {...}, 'digest': str}
"""
import json
import os
import shutil
import subprocess
import sys
import time

from . import VERIF, REPO
from . import pool, util
from .proc import HarnessError

KNOWN_PATH = os.path.join(VERIF, 'known_findings.json')
REPLAY_DIR = os.environ.get('VERIF_REPLAY_DIR') or os.path.join(VERIF, 'replays')
MAX_REPORTED = int(os.environ.get('VERIF_MAX_REPORTED', '8'))       # (the seed regression tool lowers both: it needs the verdict only)
SHRINK_BUDGET = int(os.environ.get('VERIF_SHRINK_BUDGET', '60'))


def load_known(prop_id):
    try:
        with open(KNOWN_PATH, 'r', encoding='utf-8') as f:
            items = json.load(f)
    except FileNotFoundError:
        return []
    return [k for k in items if k.get('property') == prop_id and k.get('status') == 'known']


def sig_key(v):
    return util.canon({'invariant': v['invariant'], 'signature': v['signature']})


def matches_known(v, known):
    for k in known:
        if k.get('invariant') not in (None, v['invariant']):
            continue
        ks = k.get('signature') or {}
        if all(v['signature'].get(a) == b for a, b in ks.items()):
            return k
    return None


def scratch_root():
    base = os.environ.get('VERIF_SCRATCH')
    if not base:
        base = '/dev/shm' if os.path.isdir('/dev/shm') and os.access('/dev/shm', os.W_OK) else None
        if base is None:
            import tempfile
            base = tempfile.gettempdir()
    path = os.path.join(base, 'tallysim-%d' % os.getpid())
    shutil.rmtree(path, ignore_errors=True)
    os.makedirs(path)
    from . import proc
    proc.build_locale(os.path.join(path, 'locale'))
    return path


def run_environment(seed, pid, i):
    """Per-run properties of the simulated machine that no single check owns.  The locale encoding: what a text file
    opened WITHOUT an explicit encoding is decoded / encoded with (UTF-8 on most Unix machines, a legacy code page on
    many Windows ones)."""
    rng = util.rng_for(seed, pid, i, salt='environment')
    env = {'locale_encoding': rng.choice(['utf-8', 'utf-8', 'utf-8', 'cp1252', 'latin-1', 'ascii'])}
    if i % 11 == 4:
        # the shell the command is started from has a non-English LC_TIME (next to an English LANG): nothing changes unless the
        # program adopts the environment's locale - then `%b` in a statement's date format means other month names
        env['lc_time'] = 'nl_NL'
    if i % 7 == 5:
        # the interpreter runs with -O / PYTHONOPTIMIZE=1: assert statements are no-ops.  One run in seven, by the run index (7 is
        # coprime to every other stratification in the checks), so that a check can know which of its runs these are.
        env['pyopt'] = 1
    return env


def replay_with_env(mod, schedule, scratch):
    from . import proc
    proc.RUN_DEFAULTS = dict(schedule.get('env_defaults') or {})
    res = mod.replay(schedule, scratch)
    for v in res.get('violations') or []:
        v['schedule'].setdefault('env_defaults', dict(proc.RUN_DEFAULTS))
    return res


def shrink(mod, v, scratch):
    """Greedy schedule-level delta debugging while the same (invariant, signature) persists."""
    if not hasattr(mod, 'shrink_candidates'):
        return v, 0
    want = sig_key(v)
    best = v
    spent = 0
    progress = True
    while progress and spent < SHRINK_BUDGET:
        progress = False
        for cand in mod.shrink_candidates(best['schedule']):
            if spent >= SHRINK_BUDGET:
                break
            spent += 1
            try:
                res = replay_with_env(mod, dict(cand, env_defaults=best['schedule'].get('env_defaults') or {}), os.path.join(scratch, 'shrink'))
            except HarnessError:
                continue
            hit = [x for x in res['violations'] if sig_key(x) == want]
            if hit:
                best = hit[0]
                progress = True
                break
    return best, spent


def write_replay(mod, v):
    os.makedirs(REPLAY_DIR, exist_ok=True)
    doc = {'property': mod.ID, 'invariant': v['invariant'], 'signature': v['signature'],
           'witness': v['witness'], 'digest': v['digest'], 'schedule': v['schedule'],
           'repo': REPO, 'hashseed': os.environ.get('PYTHONHASHSEED', '0')}
    name = '%s-%s.json' % (mod.ID, util.digest(doc)[:12])
    path = os.path.join(REPLAY_DIR, name)
    with open(path, 'w', encoding='utf-8') as f:
        json.dump(doc, f, indent=1, sort_keys=True, ensure_ascii=False)
    return path


def confirm_fresh(mod, path):
    """Replay in a fresh interpreter: must reproduce the same violation and digest."""
    cmd = [sys.executable, '-B', os.path.join(VERIF, 'check'), mod.ID, '--replay', path]
    env = dict(os.environ)
    env.pop('TALLYSIM_BOOTED', None)
    p = subprocess.run(cmd, stdout=subprocess.PIPE, stderr=subprocess.STDOUT, env=env, timeout=600)
    out = p.stdout.decode('utf-8', 'replace')
    return p.returncode == 1 and 'REPRODUCED' in out and 'NOT-REPRODUCED' not in out, out


def do_replay(mod, path):
    with open(path, 'r', encoding='utf-8') as f:
        doc = json.load(f)
    hs = str(doc.get('hashseed', '0'))
    if hs != os.environ.get('PYTHONHASHSEED', '0'):
        # found under another string-hash seed (set iteration order is part of the schedule): replay under that one
        env = dict(os.environ, TALLYSIM_HASHSEED=hs)
        env.pop('TALLYSIM_BOOTED', None)
        p = subprocess.run([sys.executable, '-B', os.path.join(VERIF, 'check'), mod.ID, '--replay', path],
                           stdout=subprocess.PIPE, stderr=subprocess.STDOUT, env=env, timeout=900)
        sys.stdout.write(p.stdout.decode('utf-8', 'replace'))
        return p.returncode
    scratch = scratch_root()
    try:
        res = replay_with_env(mod, doc['schedule'], os.path.join(scratch, 'replay'))
    finally:
        shutil.rmtree(scratch, ignore_errors=True)
    want = util.canon({'invariant': doc['invariant'], 'signature': doc['signature']})
    hit = [v for v in res['violations'] if sig_key(v) == want]
    if not hit:
        print('NOT-REPRODUCED property=%s replay=%s (violations now: %s)' % (
            mod.ID, path, [(v['invariant'], v['signature']) for v in res['violations']]))
        return 0
    v = hit[0]
    if v['digest'] != doc['digest']:
        print('HARNESS-ERROR nondeterministic replay: digest %s != recorded %s' % (v['digest'], doc['digest']))
        return 2
    print('REPRODUCED digest=%s' % v['digest'])
    print('VIOLATION property=%s replay=%s' % (mod.ID, path))
    print('  invariant=%s signature=%s' % (v['invariant'], util.canon(v['signature'])))
    print('  ' + v['witness'].replace('\n', '\n  '))
    return 1


def merge_stats(results):
    count = {}
    sets = {}
    samples = []
    for i in sorted(results):
        r = results[i]
        for k, n in (r.get('count') or {}).items():
            count[k] = count.get(k, 0) + n
        for k, items in (r.get('sets') or {}).items():
            sets.setdefault(k, set()).update(items)
        for s in r.get('samples') or []:
            if len(samples) < 3:
                samples.append(s)
    return count, sets, samples


def run_check(mod, tier, seed, fresh_confirm=True):
    t0 = time.time()
    scratch = scratch_root()
    n = mod.runs(tier)
    if os.environ.get('VERIF_RUNS'):
        n = int(os.environ['VERIF_RUNS'])
    offset = int(os.environ.get('VERIF_RUN_OFFSET', '0'))
    subpass = os.environ.get('VERIF_SUBPASS') == '1'
    print('tallysim check=%s tier=%s VERIF_SEED=%d runs=%d workers=%d repo=%s hashseed=%s' % (
        mod.ID, tier, seed, n, pool.n_workers(), REPO, os.environ.get('PYTHONHASHSEED')))
    sys.stdout.flush()
    try:
        def one(i):
            from . import proc
            proc.RUN_DEFAULTS = run_environment(seed, mod.ID, i)
            res = mod.run_one(seed, i, tier, os.path.join(scratch, 'w%d' % i))
            for v in res.get('violations') or []:
                v['schedule']['env_defaults'] = dict(proc.RUN_DEFAULTS)
            res.setdefault('count', {})['locale.' + proc.RUN_DEFAULTS.get('locale_encoding', 'utf-8')] = 1
            if proc.RUN_DEFAULTS.get('pyopt'):
                res['count']['interpreter.optimized'] = 1
            if proc.RUN_DEFAULTS.get('lc_time') and os.environ.get('TALLYSIM_LOCPATH'):
                res['count']['environment.lc_time'] = 1
            return res
        results = pool.run_sharded(one, range(offset, offset + n), scratch)
        results = {i - offset: r for i, r in results.items()}
        count, sets, samples = merge_stats(results)
        run_digests = [results[i]['digest'] for i in range(n)]
        all_digest = util.digest(run_digests)
        # ---- violations
        distinct = {}
        total_v = 0
        for i in range(n):
            for v in results[i]['violations']:
                total_v += 1
                distinct.setdefault(sig_key(v), v)
        known = load_known(mod.ID)
        known_hit = {}
        new = []
        for key in sorted(distinct):
            v = distinct[key]
            k = matches_known(v, known)
            if k is not None:
                known_hit.setdefault(k['what'], v)
            else:
                new.append(v)
        # report across invariants first (round-robin over the invariant names), so that the few signatures that are
        # minimised and written as replay files show every clause that failed rather than eight variants of one
        groups = {}
        for v in new:
            groups.setdefault(v['invariant'], []).append(v)
        new = [g[k] for k in range(max([len(g) for g in groups.values()] or [0])) for _, g in sorted(groups.items()) if k < len(g)]
        exit_code = 0
        reported = []
        for v in new[:MAX_REPORTED]:
            small, spent = shrink(mod, v, scratch)
            # canonical digest: the reduced schedule executed on its own, in this process
            again = replay_with_env(mod, small['schedule'], os.path.join(scratch, 'confirm'))
            hit = [x for x in again['violations'] if sig_key(x) == sig_key(small)]
            if not hit:
                print('HARNESS-ERROR violation %s did not reproduce when its schedule was re-executed' % sig_key(small))
                exit_code = 2
                continue
            small = hit[0]
            path = write_replay(mod, small)
            note = ''
            if fresh_confirm:
                ok, out = confirm_fresh(mod, path)
                if not ok:
                    print('HARNESS-ERROR replay of %s in a fresh interpreter did not reproduce:\n%s' % (path, out))
                    exit_code = 2
                    continue
                note = ' (replayed in a fresh interpreter, %d shrink executions)' % spent
            print('VIOLATION property=%s replay=%s' % (mod.ID, path))
            print('  invariant=%s signature=%s%s' % (small['invariant'], util.canon(small['signature']), note))
            print('  ' + small['witness'].replace('\n', '\n  '))
            reported.append(path)
            if exit_code == 0:
                exit_code = 1
        if len(new) > MAX_REPORTED:
            print('  ... and %d more distinct violation signatures not minimised' % (len(new) - MAX_REPORTED))
        for what in sorted(known_hit):
            print('KNOWN-FINDING: property=%s %s' % (mod.ID, what))
        second = None
        if not subpass and not os.environ.get('VERIF_RUNS') and os.environ.get('VERIF_NO_SECOND_PASS') != '1':
            # the string-hash seed (iteration order of every set and of dict-of-set structures) is a source of nondeterminism a real
            # interpreter draws afresh at every start; this interpreter and every process forked from it run under one value, so a
            # quarter as many further runs are made by a second harness under another value (it minimises, writes and confirms its own
            # replay files, which record the value)
            other = '1' if os.environ.get('PYTHONHASHSEED', '0') != '1' else '2'
            evtmp = os.path.join(scratch, 'second-evidence')
            env = dict(os.environ, TALLYSIM_HASHSEED=other, VERIF_SUBPASS='1', VERIF_RUN_OFFSET=str(offset + n), VERIF_RUNS=str(max(8, n // 4)),
                       VERIF_EVIDENCE_DIR=evtmp, VERIF_SEED=str(seed), VERIF_REPO=REPO)
            env.pop('TALLYSIM_BOOTED', None)
            p2 = subprocess.run([sys.executable, '-B', os.path.join(VERIF, 'check'), mod.ID, '--tier', tier],
                                stdout=subprocess.PIPE, stderr=subprocess.STDOUT, env=env, timeout=6000)
            out2 = p2.stdout.decode('utf-8', 'replace')
            for line in out2.split('\n'):
                if line.startswith('tallysim check=') or not line.strip():
                    continue
                if line.startswith(mod.ID + ' ' + tier + ':'):
                    line = '  second pass (PYTHONHASHSEED=%s): %s' % (other, line)
                print(line)
            if p2.returncode not in (0, 1):
                print('HARNESS-ERROR the second pass (PYTHONHASHSEED=%s) exited %s' % (other, p2.returncode))
                exit_code = 2
            elif p2.returncode == 1 and exit_code == 0:
                exit_code = 1
            try:
                with open(os.path.join(evtmp, mod.ID + '.json'), 'r', encoding='utf-8') as f:
                    ev2 = json.load(f)
                c2 = ev2['coverage']
                second = {'PYTHONHASHSEED': other, 'runs': c2.get('runs'), 'run_indices': [offset + n, offset + n + (c2.get('runs') or 0) - 1],
                          'evaluations': c2.get('evaluations'), 'distinct_nontrivial': c2.get('distinct_nontrivial'),
                          'faults_fired': c2.get('faults_fired'), 'violations': ev2.get('violations'), 'batch_digest': c2.get('batch_digest')}
            except (OSError, ValueError, KeyError):
                if exit_code == 0:
                    print('HARNESS-ERROR the second pass wrote no evidence:\n' + out2[-1500:])
                    exit_code = 2
        wall = time.time() - t0
        cov = mod.coverage(count, sets, samples, tier)
        if second is not None:
            cov['second_pass_other_hash_seed'] = second
        cov.setdefault('runs', n)
        cov.setdefault('seeds', [seed])
        cov['runs_per_hour'] = int(n / wall * 3600) if wall > 0 else 0
        cov['batch_digest'] = all_digest
        cov['known_findings_hit'] = sorted(known_hit)
        cov['distinct_violation_signatures'] = len(distinct)
        cov['components'] = mod.COMPONENTS
        cov['machine_environment'] = {
            'what': 'per run, from the seed and the run index, stored in replay files: the locale encoding (used by every text open() that names '
                    'no encoding), whether the interpreter runs with -O (one run in seven; tally re-imported in the simulated process with '
                    'asserts compiled away), and the LC_TIME of the calling shell',
            'runs_by_locale_encoding': {k[7:]: v for k, v in count.items() if k.startswith('locale.')},
            'runs_with_optimized_interpreter': count.get('interpreter.optimized', 0),
            'runs_with_dutch_LC_TIME_in_the_environment': count.get('environment.lc_time', 0),
            'lc_time_note': 'one run in eleven: LANG=C.UTF-8 LC_TIME=nl_NL, the locale compiled with localedef into the scratch directory '
                            '(LOCPATH); it matters only to a program that calls setlocale(LC_ALL, "") - the unchanged tree does not'}
        cov['simulated_time'] = ('tally has no timers: simulated time is not meaningful; reported instead: '
                                 'simulated process executions, file-system effects, pinned calendar dates')
        ev = {'property_id': mod.ID, 'tier': tier, 'seed': seed, 'level': mod.LEVEL, 'coverage': cov,
              'assumptions': mod.ASSUMPTIONS, 'wall_s': round(wall, 2),
              'violations': len(new) + ((second or {}).get('violations') or 0)}
        evdir = os.environ.get('VERIF_EVIDENCE_DIR') or os.path.join(VERIF, 'evidence')
        os.makedirs(evdir, exist_ok=True)
        with open(os.path.join(evdir, mod.ID + '.json'), 'w', encoding='utf-8') as f:
            json.dump(ev, f, indent=1, sort_keys=True, ensure_ascii=False)
        print('%s %s: runs=%d evaluations=%s distinct_nontrivial=%s violations=%d known=%d wall=%.1fs digest=%s' % (
            mod.ID, tier, n, cov.get('evaluations'), cov.get('distinct_nontrivial'), len(new), len(known_hit),
            wall, all_digest[:16]))
        return exit_code
    finally:
        shutil.rmtree(scratch, ignore_errors=True)


# ----------------------------------------------------------------------------- generic shrinking helpers

def shrink_world_candidates(world, protect=()):
    """world: snap_to_json form {rel: None | {'t': text} | {'b': ...}}.  Yields smaller worlds:
    drop a file; drop halves / single lines of a text file."""
    files = [r for r, v in world.items() if v is not None]
    for r in files:
        if r in protect:
            continue
        w = dict(world)
        del w[r]
        yield w
    for r in files:
        v = world[r]
        if 't' not in v:
            continue
        lines = v['t'].split('\n')
        if len(lines) <= 2:
            continue
        n = len(lines)
        chunk = n // 2
        while chunk >= 1:
            for a in range(0, n, chunk):
                new = lines[:a] + lines[a + chunk:]
                if len(new) == n or not new:
                    continue
                w = dict(world)
                w[r] = {'t': '\n'.join(new)}
                yield w
            chunk //= 2
