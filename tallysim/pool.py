"""Static-sharded fork pool: run i goes to worker i mod N.  No thread pools, no work stealing,
so the set of runs and every run's log are independent of the worker count."""
import faulthandler
import json
import os
import signal
import sys
import time
import traceback

from .proc import HarnessError


def n_workers():
    try:
        w = int(os.environ.get('VERIF_WORKERS', '0'))
    except ValueError:
        w = 0
    if w <= 0:
        w = min(16, os.cpu_count() or 4)
    return w


def run_sharded(fn, indices, scratch, workers=None, wall_s=3000):
    """fn(i) -> JSON-able.  Returns {i: result}.  Raises HarnessError when a worker dies or
    exceeds wall_s."""
    indices = list(indices)
    workers = max(1, min(workers or n_workers(), len(indices) or 1))
    os.makedirs(scratch, exist_ok=True)
    pids = {}
    sys.stdout.flush()
    sys.stderr.flush()
    for w in range(workers):
        path = os.path.join(scratch, 'res-%d.jsonl' % w)
        pid = os.fork()
        if pid == 0:
            code = 0
            try:
                signal.pthread_sigmask(signal.SIG_UNBLOCK, [signal.SIGCHLD])
                faulthandler.enable()
                faulthandler.dump_traceback_later(wall_s, exit=True)
                fd = os.open(path, os.O_WRONLY | os.O_CREAT | os.O_TRUNC, 0o644)
                for i in indices[w::workers]:
                    try:
                        res = {'i': i, 'r': fn(i)}
                    except HarnessError as e:
                        res = {'i': i, 'harness_error': str(e)}
                    except Exception:
                        res = {'i': i, 'harness_error': traceback.format_exc()}
                    data = (json.dumps(res, sort_keys=True) + '\n').encode('utf-8')
                    while data:
                        k = os.write(fd, data)
                        data = data[k:]
                os.close(fd)
            except BaseException:
                traceback.print_exc()
                code = 3
            finally:
                os._exit(code)
        pids[pid] = w
    deadline = time.monotonic() + wall_s + 30
    failed = []
    while pids:
        try:
            pid, st = os.waitpid(-1, os.WNOHANG)
        except ChildProcessError:
            break
        if pid == 0:
            if time.monotonic() > deadline:
                for p in pids:
                    try:
                        os.kill(p, signal.SIGKILL)
                    except ProcessLookupError:
                        pass
                raise HarnessError('worker pool exceeded wall clock')
            time.sleep(0.02)
            continue
        if pid in pids:
            w = pids.pop(pid)
            if st != 0:
                failed.append((w, st))
    if failed:
        raise HarnessError('worker(s) died: %r' % failed)
    out = {}
    for w in range(workers):
        path = os.path.join(scratch, 'res-%d.jsonl' % w)
        with open(path, 'r', encoding='utf-8') as f:
            for line in f:
                rec = json.loads(line)
                if 'harness_error' in rec:
                    raise HarnessError('run %d: %s' % (rec['i'], rec['harness_error']))
                out[rec['i']] = rec['r']
        os.unlink(path)
    missing = [i for i in indices if i not in out]
    if missing:
        raise HarnessError('runs without result: %r' % missing[:10])
    return out
