"""setup_cmd: nothing to build.  Verifies that the harness can import tally from the working tree,
fork a simulated process, and see its effects."""
import os
import shutil
import sys


def main():
    from . import proc, util, REPO
    from .driver import scratch_root
    scratch = scratch_root()
    try:
        root = os.path.join(scratch, 'w')
        util.write_world(root, {'config/settings.yaml': 'year: 2025\ndata_sources:\n  - name: Card\n    file: data/c.csv\n    format: "{date:%m/%d/%Y},{description},{amount}"\n',
                                'data/c.csv': 'Date,Description,Amount\n01/05/2025,NETFLIX r1,15.99\n'})
        r = proc.run_cli(root, ['up', 'config', '--summary'])
        ok = r.exit == 0 and 'Card: 1 transactions' in r.out
        r2 = proc.run_cli(root, ['up', 'config'], {'fault': {'kind': 'crash', 'at': 1, 'cut': 'none'}})
        ok = ok and r2.crashed and r2.fired
        print('selfcheck: tally from %s/src, simulated process ok=%s' % (REPO, ok))
        return 0 if ok else 2
    finally:
        shutil.rmtree(scratch, ignore_errors=True)
