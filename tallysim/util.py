"""Shared helpers: seeded PRNG derivation, tree snapshots, digests, audit."""
import hashlib
import json
import os
import random
import shutil


FIXED_MTIME = 1700000000


def rng_for(seed, prop, i, salt=''):
    h = hashlib.sha256(('%d|%s|%d|%s' % (seed, prop, i, salt)).encode()).digest()
    return random.Random(int.from_bytes(h[:16], 'big'))


def sha(data):
    if isinstance(data, str):
        data = data.encode('utf-8')
    return hashlib.sha256(data).hexdigest()


def canon(obj):
    return json.dumps(obj, sort_keys=True, ensure_ascii=True, default=_default)


def _default(o):
    if isinstance(o, (set, frozenset)):
        return sorted(o, key=repr)
    if isinstance(o, bytes):
        return {'__bytes__': o.decode('latin-1')}
    return repr(o)


def digest(obj):
    return sha(canon(obj))


# ----------------------------------------------------------------------------- trees

def snapshot(root):
    """{relpath: bytes} for files, {relpath + '/': None} for directories, {relpath + '@': target bytes} for symbolic
    links (to files or directories; never followed)."""
    snap = {}
    for d, dirs, files in os.walk(root):
        dirs.sort()
        rel = os.path.relpath(d, root)
        if rel != '.':
            snap[rel + '/'] = None
        for f in list(dirs):
            p = os.path.join(d, f)
            if os.path.islink(p):
                snap[os.path.normpath(os.path.join(rel, f)) + '@'] = os.readlink(p).encode('utf-8', 'surrogateescape')
        for f in sorted(files):
            p = os.path.join(d, f)
            r = os.path.normpath(os.path.join(rel, f))
            if os.path.islink(p):
                snap[r + '@'] = os.readlink(p).encode('utf-8', 'surrogateescape')
            else:
                with open(p, 'rb') as fh:
                    snap[r] = fh.read()
    return snap


def restore(root, snap):
    for rt in (os.path.realpath(root).encode(), root.encode()):
        if rt not in _ROOTS:
            _ROOTS.insert(0, rt)
            del _ROOTS[8:]
    if os.path.isdir(root):
        shutil.rmtree(root)
    if os.path.isdir(os.path.realpath(root) + '.tmpfs'):
        shutil.rmtree(os.path.realpath(root) + '.tmpfs')    # the simulated $TMPDIR starts empty with every world
    os.makedirs(root)
    for r in sorted(snap):
        if r.endswith('/'):
            os.makedirs(os.path.join(root, r), exist_ok=True)
    for r, data in snap.items():
        if r.endswith('/') or r.endswith('@'):
            continue
        p = os.path.join(root, r)
        os.makedirs(os.path.dirname(p), exist_ok=True)
        with open(p, 'wb') as fh:
            fh.write(data)
        os.utime(p, (FIXED_MTIME, FIXED_MTIME))      # the simulated disk has no wall clock: every file carries the same stamp
    for r, data in snap.items():
        if r.endswith('@'):
            p = os.path.join(root, r[:-1])
            os.makedirs(os.path.dirname(p), exist_ok=True)
            os.symlink(data.decode('utf-8', 'surrogateescape'), p)
    return snapshot(root)


def links_of(snap):
    """{link path: resolved target path (world-relative, normalised)} for the symbolic links of a snapshot."""
    out = {}
    for r, data in snap.items():
        if r.endswith('@') and data is not None:
            link = r[:-1]
            out[link] = os.path.normpath(os.path.join(os.path.dirname(link), data.decode('utf-8', 'surrogateescape')))
    return out


def resolve_path(links, rel, depth=0):
    """`rel` with every symbolic-link prefix (and a symbolic-link leaf) replaced by its target."""
    if depth > 8 or not links:
        return rel
    parts = rel.split('/')
    for j in range(1, len(parts) + 1):
        pre = '/'.join(parts[:j])
        if pre in links:
            return resolve_path(links, os.path.normpath('/'.join([links[pre]] + parts[j:])), depth + 1)
    return rel


def logical(snap):
    """The tree as programs see it: the snapshot plus, for every symbolic link, the entries reachable through it
    (link to a file: the file under the link's name; link to a directory: everything below it under the link's name)."""
    links = links_of(snap)
    if not links:
        return snap
    out = dict(snap)
    for link, target in links.items():
        target = resolve_path(links, target)
        if target in snap:
            out[link] = snap[target]
        for r, c in snap.items():
            if r.startswith(target + '/'):
                out[link + r[len(target):]] = c
    return out


def write_world(root, files, dirs=()):
    """files: {relpath: str|bytes}."""
    snap = {}
    for d in dirs:
        snap[d.rstrip('/') + '/'] = None
    for r, c in files.items():
        snap[r] = c.encode('utf-8') if isinstance(c, str) else c
    return restore(root, snap)


_ROOTS = []      # world roots of the current run (registered by restore): their absolute paths are not part of a tree's identity


def tree_digest(snap):
    h = hashlib.sha256()
    for r in sorted(snap):
        h.update(r.encode('utf-8', 'surrogateescape'))
        h.update(b'\0')
        if snap[r] is not None:
            c = snap[r]
            for rt in _ROOTS:
                if rt in c:
                    c = c.replace(rt, b'<ROOT>')     # a file that quotes the absolute path of the budget (a traceback, a log) is the same file in another scratch directory
            h.update(hashlib.sha256(c).digest())
        h.update(b'\1')
    return h.hexdigest()


def diff(pre, post):
    """Sorted list of (relpath, 'created'|'deleted'|'changed')."""
    out = []
    for r in sorted(set(pre) | set(post)):
        if r not in pre:
            out.append((r, 'created'))
        elif r not in post:
            out.append((r, 'deleted'))
        elif pre[r] != post[r]:
            out.append((r, 'changed'))
    return out


def effect_paths(events):
    """Set of relpaths named by mutating effects (src, dst, path)."""
    ps = set()
    refused = {e['n'] for e in events if e.get('k') == 'effect-failed'}
    for e in events:
        if 'n' not in e and 'fault' not in e:
            continue
        if e.get('k') == 'effect-failed' or (e.get('n') in refused and 'fault' not in e):
            continue      # the operating system refused the operation by itself: nothing was touched
        for k in ('path', 'src', 'dst'):
            if e.get(k):
                ps.add(e[k])
    return ps


def audit(pre, post, events):
    """Completeness audit of the effect seam: every difference between the two snapshots must be
    explained by a logged effect on that path or on an ancestor directory.  Returns unexplained."""
    ps = effect_paths(events)
    ps = ps | {e['path'] for e in events if e.get('k') == 'actor'}      # what an outside actor did while the process ran is explained too
    links = links_of(pre)
    links.update(links_of(post))
    if links:
        # an effect names the path as the program spelled it; the tree changes where the link points
        ps = ps | {resolve_path(links, p) for p in ps}
    bad = []
    for r, what in diff(pre, post):
        key = r.rstrip('/')
        if key.endswith('@'):
            key = key[:-1]
        ok = False
        for p in ps:
            if key == p or key.startswith(p + '/'):
                ok = True
                break
        if not ok:
            bad.append((r, what))
    return bad


def snap_to_json(snap):
    """Replay files store the rendered world: text where possible, else latin-1 wrapped."""
    out = {}
    for r, b in snap.items():
        if b is None:
            out[r] = None
        else:
            try:
                out[r] = {'t': b.decode('utf-8')}
                if out[r]['t'].encode('utf-8') != b:
                    raise UnicodeError
            except UnicodeError:
                out[r] = {'b': b.decode('latin-1')}
    return out


def snap_from_json(js):
    out = {}
    for r, v in js.items():
        if v is None:
            out[r] = None
        elif 't' in v:
            out[r] = v['t'].encode('utf-8')
        else:
            out[r] = v['b'].encode('latin-1')
    return out


def norm_text(s, root):
    """Normalise process output: replace the world root."""
    return s.replace(os.path.realpath(root), '<ROOT>').replace(root, '<ROOT>')
