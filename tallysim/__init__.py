"""tallysim - deterministic simulation with fault injection for davidfowl/tally.

One simulated OS process = one real os.fork() child of a pristine parent that has
imported tally (from $VERIF_REPO/src, default /repo/src) but never executed it.
All seams are installed in the child only.  See /verif/DESIGN.md.
"""
import os
import sys

REPO = os.environ.get('VERIF_REPO', '/repo')
VERIF = os.path.dirname(os.path.dirname(os.path.abspath(__file__)))

FIXED_ENV = {
    'PYTHONHASHSEED': '0',
    'NO_COLOR': '1',
    'COLUMNS': '80',
    'TZ': 'UTC',
    'LC_ALL': 'C.UTF-8',
    'LANG': 'C.UTF-8',
    'PYTHONDONTWRITEBYTECODE': '1',
    'PYTHONUTF8': '1',
}


def bootstrap(argv=None):
    """Re-exec once under a fixed environment, then import tally from REPO/src.

    PYTHONHASHSEED can be overridden with TALLYSIM_HASHSEED (determinism self-test).
    """
    want_hash = os.environ.get('TALLYSIM_HASHSEED', '0')
    if os.environ.get('TALLYSIM_BOOTED') != '1' or os.environ.get('PYTHONHASHSEED') != want_hash:
        env = {}
        for k in ('VERIF_REPO', 'VERIF_SEED', 'VERIF_TIER', 'VERIF_SCRATCH', 'VERIF_WORKERS',
                  'TALLYSIM_HASHSEED', 'VERIF_BUDGET_S', 'VERIF_RUNS', 'VERIF_NO_KNOWN', 'VERIF_EVIDENCE_DIR', 'VERIF_REPLAY_DIR',
                  'VERIF_SUBPASS', 'VERIF_RUN_OFFSET', 'VERIF_MAX_REPORTED', 'VERIF_SHRINK_BUDGET', 'TALLYSIM_LOST_STDERR'):
            if k in os.environ:
                env[k] = os.environ[k]
        env.update(FIXED_ENV)
        env['PYTHONHASHSEED'] = want_hash
        env['TALLYSIM_BOOTED'] = '1'
        env['PATH'] = '/usr/bin:/bin'
        env['HOME'] = '/nonexistent'
        av = list(sys.argv if argv is None else argv)
        os.execve(sys.executable, [sys.executable, '-B'] + av, env)
    src = os.path.join(REPO, 'src')
    if src in sys.path:
        sys.path.remove(src)
    sys.path.insert(0, src)
    import tally  # noqa
    import tally.cli  # noqa
    import tally.commands  # noqa
    import tally.analyzer  # noqa
    tf = os.path.realpath(tally.__file__)
    if not tf.startswith(os.path.realpath(src) + os.sep):
        sys.stderr.write('HARNESS-ERROR tally imported from %s, not %s\n' % (tf, src))
        sys.exit(2)
    return tally
