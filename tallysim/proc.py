"""Simulated process: a forked child running tally under interposed seams.

Parent side:  run_cli(world, argv, plan) / run_func(world, fn, plan) -> ProcResult
Child side :  install seams (file system, tty, network, clock, env), run, os._exit.

Effects (numbered per process, 0-based), logged *before* they are performed:
  open(w/a/x)  write  close  rename  mkdir  unlink  rmdir
Fault plan (JSON-able dict), see DESIGN.md 4.3:
  plan['fault'] = {'kind':'crash'|'oserror'|'kbi', 'at':k, 'cut':..., 'errno':'ENOSPC'}
  plan['reads'] = {relpath: {'kind':'oserror','errno':'EACCES'} | {'kind':'eio','after':n}}
  plan['tty']   = {'stdin':bool,'stdout':bool,'answers':[...]}
  plan['net']   = 'down'|'timeout'|'403'|'garbage'|'same'|'newer'|'older'
  plan['today'] = 'YYYY-MM-DD'
  plan['env']   = {...}
"""
import builtins
import errno as errno_mod
import io
import json
import os
import signal
import sys
import time
import traceback

PROC_TIMEOUT_S = 20.0

_real_open = builtins.open
_real_os = {n: getattr(os, n) for n in
            ('rename', 'replace', 'mkdir', 'remove', 'unlink', 'rmdir', 'open', 'write', 'close',
             '_exit', 'fork', 'waitpid', 'kill', 'link', 'symlink', 'truncate', 'fsync', 'fdatasync', 'getpid', 'read', 'urandom', 'listdir', 'scandir')}
if hasattr(os, 'pread'):
    _real_os['pread'] = os.pread


# --------------------------------------------------------------------------- child side

class _Child:
    """State of the seams inside one simulated process."""

    def __init__(self, root, ctl, plan):
        self.root = os.path.realpath(root)
        self.tmp = self.root + '.tmpfs'       # the simulated machine's $TMPDIR: a second file system (see sim_rename)
        self.ctl = ctl
        self.plan = plan or {}
        self.fault = self.plan.get('fault')
        self.reads = self.plan.get('reads') or {}
        self.n = 0
        self.inflight = []
        self.fired = False
        self.fdpaths = {}     # fds opened for writing through os.open: fd -> (path, rel)
        self.logfd = _real_os['open'](os.path.join(ctl, 'effects'), os.O_WRONLY | os.O_CREAT | os.O_APPEND, 0o644)

    # -- logging (one os.write per record; never touches clock or PRNG)
    def log(self, rec):
        _real_os['write'](self.logfd, (json.dumps(rec, sort_keys=True) + '\n').encode('utf-8'))

    def rel(self, path):
        p = os.fspath(path)
        if isinstance(p, bytes):
            p = p.decode('utf-8', 'surrogateescape')
        ap = os.path.normpath(os.path.join(os.getcwd(), p))
        # resolve symlinks of the directory part only (the leaf may not exist)
        d, b = os.path.split(ap)
        try:
            d = os.path.realpath(d)
        except OSError:
            pass
        ap = os.path.join(d, b)
        if ap == self.root:
            return '.'
        if ap.startswith(self.root + os.sep):
            return ap[len(self.root) + 1:]
        if ap == self.tmp:
            return '//tmp'
        if ap.startswith(self.tmp + os.sep):
            return '//tmp/' + ap[len(self.tmp) + 1:]
        return None

    # -- effect gate
    def effect(self, kind, **info):
        """Number, possibly fault, and log one effect.  Returns its number."""
        n = self.n
        self.n += 1
        f = self.fault
        if f is not None and f['kind'] in ('oserror-from', 'oserror-path'):
            # persistent conditions: a disk that stays full / read-only from effect `at` on, or one path that stays
            # locked / immutable.  Every matching effect fails, not just the first.
            hit = False
            if f['kind'] == 'oserror-from':
                hit = n >= f.get('at', 0) and (f.get('errno') != 'ENOSPC' or kind in ('open', 'write', 'close', 'mkdir'))
            else:
                hit = f.get('path') in (info.get('path'), info.get('src'), info.get('dst'))
            if hit:
                self.fired = True
                rec = dict(info)
                rec.update({'fault': f['kind'], 'n': n, 'k': kind, 'errno': f.get('errno', 'EIO')})
                self.log(rec)
                code = getattr(errno_mod, f.get('errno', 'EIO'))
                raise _oserror(code, info.get('path') or info.get('src'))
            rec = dict(info)
            rec.update({'n': n, 'k': kind})
            self.log(rec)
            return n
        if f is not None and f.get('at') == n and not self.fired:
            self.fired = True
            fk = f['kind']
            rec = dict(info)
            rec.update({'fault': fk, 'n': n, 'k': kind})
            if fk == 'crash':
                self.persist_inflight(f.get('cut', 'none'))
                rec['cut'] = f.get('cut', 'none')
                self.log(rec)
                _real_os['_exit'](137)
            elif fk == 'oserror':
                en = f.get('errno', 'EIO')
                rec['errno'] = en
                self.log(rec)
                code = getattr(errno_mod, en)
                raise _oserror(code, info.get('path') or info.get('src'))
            elif fk == 'kbi':
                self.log(rec)
                raise KeyboardInterrupt()
            elif fk == 'short-write':
                # write(2) may store fewer bytes than it was given and say so (a disk, a quota or a file-size limit that runs out
                # in mid-buffer); the next write fails with ENOSPC.  Only an fd-level write sees this - Python's buffered file
                # objects loop by themselves.  Any other effect at this index: no fault.
                if kind == 'write' and info.get('via') == 'os.write' and info.get('size', 0) > 1:
                    self.log(rec)
                    self.short_next = True
                else:
                    self.fired = False
                    rec.pop('fault')
                    self.log(rec)
                return n
            else:
                raise RuntimeError('unknown fault kind %r' % fk)
        rec = dict(info)
        rec.update({'n': n, 'k': kind})
        self.log(rec)
        return n

    def persist_inflight(self, cut):
        for f in list(self.inflight):
            try:
                f._persist(cut)
            except Exception:
                pass


def _is_null_device(path):
    try:
        return os.fspath(path) in (os.devnull, '/dev/null')
    except TypeError:
        return False


def _oserror(code, path=None):
    """OSError picks the canonical subclass (PermissionError, FileNotFoundError, ...) itself."""
    if path is not None:
        return OSError(code, os.strerror(code), path)
    return OSError(code, os.strerror(code))


def cut_len(data, cut):
    """Length of the prefix of `data` (bytes) that reaches the disk for a cut class."""
    n = len(data)
    if cut == 'none' or n == 0:
        return 0
    if cut == 'all':
        return n
    if cut == 'one':
        return 1
    if cut == 'minus1':
        return n - 1
    if cut == 'half':
        return n // 2
    if cut == 'line':
        # last line boundary strictly inside
        i = data.rfind(b'\n', 0, n - 1)
        return i + 1 if i >= 0 else 0
    if cut == 'midline':
        i = data.rfind(b'\n', 0, n - 1)
        j = i + 1 + max(1, (n - i - 1) // 2)
        return min(j, n - 1)
    if cut == 'midchar':
        # cut inside the first multi-byte UTF-8 character, if any
        for i, b in enumerate(data):
            if b >= 0xC0:
                return i + 1
        return n // 2
    if isinstance(cut, int):
        return max(0, min(n, cut))
    raise ValueError('cut %r' % (cut,))


class SimWriteFile:
    """A file opened for writing.  Bytes are held back until flush/close so the simulator,
    not libc buffering, decides what is on disk at a crash."""

    def __init__(self, ch, path, rel, mode, encoding, errors, newline, fd=None):
        self._ch = ch
        self.name = path
        self._rel = rel
        self.mode = mode
        self._binary = 'b' in mode
        self.encoding = None if self._binary else (encoding or ch.plan.get('locale_encoding') or 'utf-8')
        self.errors = errors or 'strict'
        self._newline = newline
        flags = os.O_WRONLY | os.O_CREAT
        if 'a' in mode:
            flags |= os.O_APPEND
        elif 'x' in mode:
            flags |= os.O_EXCL
        else:
            flags |= os.O_TRUNC
        if fd is None:
            if 'x' in mode and os.path.lexists(path):
                # exclusive creation of something that exists fails before anything is touched: not an effect, not a fault point
                self._fd = _real_os['open'](path, flags, 0o666)
            ch.effect('open', path=rel, mode=mode)
            self._fd = _real_os['open'](path, flags, 0o666)
        else:
            self._fd = fd       # opened (and logged) through os.open already
        self._buf = []      # pending bytes chunks
        self._total = 0
        self.closed = False
        ch.inflight.append(self)

    # -- file protocol
    def writable(self):
        return True

    def readable(self):
        return False

    def seekable(self):
        return False

    def isatty(self):
        return False

    def fileno(self):
        return self._fd

    def tell(self):
        return self._total

    def _encode(self, s):
        if self._binary:
            return bytes(s)
        if not isinstance(s, str):
            raise TypeError('write() argument must be str, not %s' % type(s).__name__)
        if self._newline not in (None, '', '\n'):
            s = s.replace('\n', self._newline)
        return s.encode(self.encoding, self.errors)

    def write(self, s):
        if self.closed:
            raise ValueError('I/O operation on closed file.')
        data = self._encode(s)
        f = self._ch.fault
        if (f is not None and f.get('at') == self._ch.n and f['kind'] == 'oserror'
                and not self._ch.fired and f.get('cut') not in (None, 'none')):
            # a failing write may have pushed part of its data
            k = cut_len(data, f.get('cut'))
            self._buf.append(data[:k])
            self._total += k
        self._ch.effect('write', path=self._rel, size=len(data))
        self._buf.append(data)
        self._total += len(data)
        return len(s)

    def writelines(self, lines):
        for ln in lines:
            self.write(ln)

    def flush(self):
        if self.closed:
            raise ValueError('I/O operation on closed file.')
        self._push(b''.join(self._buf))
        self._buf = []

    def _push(self, data):
        while data:
            k = _real_os['write'](self._fd, data)
            data = data[k:]

    def _persist(self, cut):
        """Crash / failing close: a prefix of the pending bytes reaches the disk."""
        data = b''.join(self._buf)
        self._push(data[:cut_len(data, cut)])
        self._buf = []

    def close(self):
        if self.closed:
            return
        f = self._ch.fault
        try:
            if (f is not None and f.get('at') == self._ch.n and f['kind'] == 'oserror'
                    and not self._ch.fired):
                self._persist(f.get('cut', 'none'))
            self._ch.effect('close', path=self._rel, size=self._total)
            self.flush_final()
        finally:
            if not self.closed:
                self.closed = True
                try:
                    _real_os['close'](self._fd)
                except OSError:
                    pass
                if self in self._ch.inflight:
                    self._ch.inflight.remove(self)

    def flush_final(self):
        self._push(b''.join(self._buf))
        self._buf = []

    def __enter__(self):
        return self

    def __exit__(self, *a):
        self.close()
        return False

    def __del__(self):
        try:
            if not self.closed:
                self.close()
        except BaseException:
            pass


class SimReadFile:
    """A file opened for reading under a read-fault plan ('eio' after n bytes)."""

    def __init__(self, real, after, binary, path, code=None, at_eof=False):
        self._data = real.read()
        real.close()
        self._pos = 0
        self._after = len(self._data) + 1 if at_eof else after      # at_eof: every byte is delivered, the read that would report EOF fails
        self._at_eof = at_eof
        if not binary and not at_eof and after > 0:
            # the plan counts BYTES of the file; a text-mode reader holds characters (multi-byte characters, CRLF read as one
            # newline): the fault point is the character the byte offset falls in - and a fault planned inside the file stays inside
            try:
                with _real_open(path, 'rb') as fh:
                    raw = fh.read()
                if after < len(raw):
                    pre = raw[:after].decode('utf-8', 'ignore').replace('\r\n', '\n')
                    self._after = min(len(pre), max(0, len(self._data) - 1))
            except OSError:
                pass
        self._code = code or errno_mod.EIO
        self._binary = binary
        self.name = path
        self.closed = False
        self.mode = 'rb' if binary else 'r'
        self.encoding = None if binary else 'utf-8'

    def _fail(self):
        raise OSError(self._code, os.strerror(self._code))

    def readable(self):
        return True

    def read(self, size=-1):
        if self._at_eof and self._pos >= len(self._data):
            self._fail()
        if self._pos >= self._after or self._after == 0:
            self._fail()
        limit = self._after
        if size is None or size < 0:
            # a full read crosses the fault point unless the data ends first
            if len(self._data) > limit:
                self._pos = limit
                self._fail()
            out = self._data[self._pos:]
            self._pos = len(self._data)
            return out
        end = min(self._pos + size, len(self._data))
        if end > limit:
            self._pos = limit
            self._fail()
        out = self._data[self._pos:end]
        self._pos = end
        return out

    def readline(self, size=-1):
        if self._after == 0 or (self._at_eof and self._pos >= len(self._data)):
            self._fail()      # the very first read fails, whatever the file holds / the read that would report EOF fails
        nl = b'\n' if self._binary else '\n'
        i = self._data.find(nl, self._pos)
        end = len(self._data) if i < 0 else i + 1
        if end > self._after and len(self._data) > self._after:
            self._pos = self._after
            self._fail()
        out = self._data[self._pos:end]
        self._pos = end
        return out

    def readlines(self, hint=-1):
        return list(self)

    def __iter__(self):
        return self

    def __next__(self):
        ln = self.readline()
        if not ln:
            raise StopIteration
        return ln

    def close(self):
        self.closed = True

    def __enter__(self):
        return self

    def __exit__(self, *a):
        self.close()
        return False


class SimStream(io.TextIOBase):
    """stdout / stderr of the simulated process: written through, one os.write per write()."""

    def __init__(self, fd, tty, name):
        self._fd = fd
        self._tty = tty
        self._name = name

    # the encoding of the terminal / pipe behind stdout (PYTHONIOENCODING, LC_ALL=C, a Windows console): what cannot be encoded
    # raises UnicodeEncodeError on stdout (errors='strict') and is escaped on stderr (errors='backslashreplace'), as in CPython
    stdout_encoding = 'utf-8'

    @property
    def encoding(self):
        return SimStream.stdout_encoding

    @property
    def errors(self):
        return 'strict' if self._name == '<stdout>' else 'backslashreplace'

    @property
    def name(self):
        return self._name

    def writable(self):
        return True

    def isatty(self):
        return self._tty

    broken = None      # set by the seam: (child state, plan) - the reader of stdout/stderr goes away after effect k

    def write(self, s):
        if not isinstance(s, str):
            raise TypeError('write() argument must be str')
        b = SimStream.broken
        if b is not None and b[0].n > b[1].get('after_effect', -1) and (b[1].get('stream', 'stdout') in (self._name, 'both')
                                                                          or self._name == '<' + b[1].get('stream', 'stdout') + '>'):
            if not b[1].get('_logged'):
                b[1]['_logged'] = True
                b[0].fired = True
                b[0].log({'k': 'stdout-broken', 'fault': 'stdout-broken', 'after_effect': b[1].get('after_effect', -1), 'stream': self._name})
            code = getattr(errno_mod, b[1].get('errno', 'EPIPE'))
            raise OSError(code, os.strerror(code))       # EPIPE -> BrokenPipeError
        if SimStream.stdout_encoding != 'utf-8' and self._name == '<stdout>':
            s.encode(SimStream.stdout_encoding, 'strict')        # raises what the real stream raises; the reader gets UTF-8 all the same
        _real_os['write'](self._fd, s.encode('utf-8', 'backslashreplace'))
        return len(s)

    def flush(self):
        pass

    def fileno(self):
        raise io.UnsupportedOperation('fileno')


class SimStdin(io.TextIOBase):
    def __init__(self, tty):
        self._tty = tty

    def isatty(self):
        return self._tty

    def readable(self):
        return True

    def read(self, n=-1):
        return ''

    def readline(self, n=-1):
        return ''

    def fileno(self):
        raise io.UnsupportedOperation('fileno')


def _install(ch):
    """Install every seam in the current (child) process."""
    plan = ch.plan
    root = ch.root

    # ---- file system
    def sim_open(file, mode='r', buffering=-1, encoding=None, errors=None, newline=None,
                 closefd=True, opener=None):
        if isinstance(file, int):
            if file in ch.fdpaths and any(c in mode for c in 'wax') and '+' not in mode:
                pth, rl = ch.fdpaths.pop(file)
                return SimWriteFile(ch, pth, rl, mode, encoding, errors, newline, fd=file)
            ch.fdpaths.pop(file, None)
            return _real_open(file, mode, buffering, encoding, errors, newline, closefd, opener)
        rel = ch.rel(file)
        writing = any(c in mode for c in 'wax+')
        if writing and _is_null_device(file):
            return _real_open(file, mode, buffering, encoding, errors, newline, closefd, opener)
        if writing:
            if rel is None:
                ch.log({'k': 'escape', 'path': os.fspath(file), 'op': 'open', 'mode': mode})
                raise PermissionError(errno_mod.EACCES, 'tallysim: write outside world', os.fspath(file))
            if '+' in mode:
                ch.log({'k': 'unsupported', 'path': rel, 'op': 'open', 'mode': mode})
                raise io.UnsupportedOperation('tallysim: mode %r not modelled' % mode)
            return SimWriteFile(ch, os.fspath(file), rel, mode, encoding, errors, newline)
        if encoding is None and 'b' not in mode and rel is not None and ch.plan.get('locale_encoding'):
            # a text file opened without an explicit encoding is decoded with the machine's locale encoding
            encoding = ch.plan['locale_encoding']
            ch.log({'k': 'locale-open', 'path': rel})
        rp = ch.reads.get(rel) if rel is not None else None
        if rel is not None and ch.plan.get('log_reads'):
            ch.log({'k': 'read', 'path': rel})
        if rp:
            ch.log({'k': 'readfault', 'path': rel, 'plan': rp})
            if rp.get('once'):
                ch.reads = {k_: v_ for k_, v_ in ch.reads.items() if k_ != rel}     # transient: the next open of the path is clean
            if rp['kind'] == 'oserror':
                code = getattr(errno_mod, rp['errno'])
                raise OSError(code, os.strerror(code), os.fspath(file))
            if rp['kind'] == 'eio':
                real = _real_open(file, mode, buffering, encoding, errors, newline, closefd, opener)
                return SimReadFile(real, int(rp.get('after', 0)), 'b' in mode, os.fspath(file),
                                   code=getattr(errno_mod, rp['errno']) if rp.get('errno') else None, at_eof=bool(rp.get('at_eof')))
        return _real_open(file, mode, buffering, encoding, errors, newline, closefd, opener)

    vanish = dict(plan.get('vanish') or {})      # relpath -> k: removed just before the k-th observation (stat or open)
    seen = {}

    def observe_path(path):
        if not vanish:
            return
        try:
            rel = ch.rel(path)
        except Exception:
            return
        if rel in vanish:
            seen[rel] = seen.get(rel, 0) + 1
            if seen[rel] == vanish[rel]:
                ch.log({'k': 'vanish', 'path': rel, 'at': seen[rel]})
                try:
                    _real_os['unlink'](os.path.join(ch.root, rel))
                except OSError:
                    pass

    real_stat = os.stat
    if vanish:
        def sim_stat(path, *a, **kw):
            if not isinstance(path, int) and not kw.get('dir_fd'):
                observe_path(path)
            return real_stat(path, *a, **kw)
        os.stat = sim_stat
        inner_open = sim_open

        def sim_open_v(file, mode='r', *a, **kw):
            if not isinstance(file, int):
                observe_path(file)
            return inner_open(file, mode, *a, **kw)
        sim_open = sim_open_v

    builtins.open = sim_open
    io.open = sim_open
    try:
        import _pyio
        _pyio.open = sim_open
    except Exception:
        pass

    def guard(path, op):
        rel = ch.rel(path)
        if rel is None:
            ch.log({'k': 'escape', 'path': os.fspath(path), 'op': op})
            raise PermissionError(errno_mod.EACCES, 'tallysim: %s outside world' % op, os.fspath(path))
        return rel

    def done(real, *a, **kw):
        """Perform the real operation of the effect just logged; when the operating system refuses it by itself (EEXIST on a
        link or an exclusive create, ENOTEMPTY, ...) nothing was touched: the log says so, and the oracles do not count the
        attempt as a write."""
        try:
            return real(*a, **kw)
        except OSError:
            ch.log({'k': 'effect-failed', 'n': ch.n - 1})
            raise

    def xdev(rs, rd, src, dst):
        # $TMPDIR is another file system than the budget (tmpfs /tmp is the common case) unless the plan says otherwise:
        # rename, replace and link across the boundary fail with EXDEV and change nothing
        if rs.startswith('//tmp') != rd.startswith('//tmp') and plan.get('tmpdev', 'other') == 'other':
            ch.log({'k': 'exdev', 'src': rs, 'dst': rd})
            raise OSError(errno_mod.EXDEV, os.strerror(errno_mod.EXDEV), os.fspath(src), None, os.fspath(dst))

    def sim_rename(src, dst, *a, **kw):
        rs, rd = guard(src, 'rename'), guard(dst, 'rename')
        xdev(rs, rd, src, dst)
        ch.effect('rename', src=rs, dst=rd)
        return done(_real_os['rename'], src, dst, *a, **kw)

    def sim_replace(src, dst, *a, **kw):
        rs, rd = guard(src, 'replace'), guard(dst, 'replace')
        xdev(rs, rd, src, dst)
        ch.effect('rename', src=rs, dst=rd)
        return done(_real_os['replace'], src, dst, *a, **kw)

    def sim_mkdir(path, mode=0o777, *a, **kw):
        rel = ch.rel(path)
        if os.path.lexists(path):
            return _real_os['mkdir'](path, mode, *a, **kw)   # raises FileExistsError; not an effect
        if rel is None:
            ch.log({'k': 'escape', 'path': os.fspath(path), 'op': 'mkdir'})
            raise PermissionError(errno_mod.EACCES, 'tallysim: mkdir outside world', os.fspath(path))
        ch.effect('mkdir', path=rel)
        return done(_real_os['mkdir'], path, mode, *a, **kw)

    def sim_unlink(path, *a, **kw):
        rel = guard(path, 'unlink')
        ch.effect('unlink', path=rel)
        return done(_real_os['unlink'], path, *a, **kw)

    def sim_rmdir(path, *a, **kw):
        rel = guard(path, 'rmdir')
        ch.effect('rmdir', path=rel)
        return done(_real_os['rmdir'], path, *a, **kw)

    rfds = {}        # fds opened for reading under a read-fault plan: fd -> [plan, bytes handed out so far, size]

    def sim_os_open(path, flags, mode=0o777, *a, **kw):
        writing = flags & (os.O_WRONLY | os.O_RDWR | os.O_CREAT | os.O_TRUNC | os.O_APPEND)
        if not writing and kw.get('dir_fd') is None:
            # a program may read with os.open / os.read / os.pread instead of open(): the same read plans apply
            try:
                rel = ch.rel(path)
            except Exception:
                rel = None
            if rel is not None and not (flags & getattr(os, 'O_DIRECTORY', 0)):
                observe_path(path)
                if ch.plan.get('log_reads'):
                    ch.log({'k': 'read', 'path': rel})
                rp = ch.reads.get(rel)
                if rp:
                    ch.log({'k': 'readfault', 'path': rel, 'plan': rp, 'via': 'os.open'})
                    if rp.get('once'):
                        ch.reads = {k_: v_ for k_, v_ in ch.reads.items() if k_ != rel}
                    if rp['kind'] == 'oserror':
                        code = getattr(errno_mod, rp['errno'])
                        raise OSError(code, os.strerror(code), os.fspath(path))
                    fd = _real_os['open'](path, flags, mode, *a, **kw)
                    try:
                        size = os.fstat(fd).st_size
                    except OSError:
                        size = 0
                    rfds[fd] = [rp, 0, size]
                    return fd
        if not writing or kw.get('dir_fd') is not None or _is_null_device(path):
            return _real_os['open'](path, flags, mode, *a, **kw)
        rel = guard(path, 'os.open')
        if (flags & os.O_EXCL) and (flags & os.O_CREAT) and os.path.lexists(path):
            # exclusive creation of something that exists fails before anything is touched: not an effect, not a fault point
            return _real_os['open'](path, flags, mode, *a, **kw)
        ch.effect('open', path=rel, mode='os.open')
        fd = done(_real_os['open'], path, flags, mode, *a, **kw)
        ch.fdpaths[fd] = (os.fspath(path), rel)
        return fd

    def sim_os_write(fd, data):
        if fd in ch.fdpaths:
            if getattr(ch, 'disk_full', False) and len(data):
                ch.log({'k': 'write', 'path': ch.fdpaths[fd][1], 'size': len(data), 'fault': 'disk-full', 'errno': 'ENOSPC', 'n': ch.n})
                ch.n += 1
                raise _oserror(errno_mod.ENOSPC)
            ch.effect('write', path=ch.fdpaths[fd][1], size=len(data), via='os.write')
            if getattr(ch, 'short_next', False):
                ch.short_next = False
                ch.disk_full = True
                return _real_os['write'](fd, bytes(data)[:len(data) // 2])
        return _real_os['write'](fd, data)

    def _rfault(rp):
        code = getattr(errno_mod, rp['errno']) if rp.get('errno') else errno_mod.EIO
        raise OSError(code, os.strerror(code))

    def sim_os_read(fd, n):
        st = rfds.get(fd)
        if st is None:
            return _real_os['read'](fd, n)
        rp, done, size = st
        if rp.get('at_eof'):
            data = _real_os['read'](fd, n)
            if not data:
                _rfault(rp)            # every byte was delivered; the read that would report end-of-file fails
            return data
        limit = int(rp.get('after', 0))
        if limit == 0 or done >= limit:
            _rfault(rp)
        if done + n > limit and size > limit:
            st[1] = limit
            _rfault(rp)
        data = _real_os['read'](fd, n)
        st[1] = done + len(data)
        return data

    def sim_os_pread(fd, n, offset):
        st = rfds.get(fd)
        if st is None:
            return _real_os['pread'](fd, n, offset)
        rp, done, size = st
        if rp.get('at_eof'):
            data = _real_os['pread'](fd, n, offset)
            if not data:
                _rfault(rp)
            return data
        limit = int(rp.get('after', 0))
        if limit == 0 or (offset + n > limit and size > limit):
            _rfault(rp)
        return _real_os['pread'](fd, n, offset)

    def sim_os_close(fd):
        rfds.pop(fd, None)
        if fd in ch.fdpaths:
            rel = ch.fdpaths[fd][1]
            ch.effect('close', path=rel, size=-1)
            ch.fdpaths.pop(fd, None)
        return _real_os['close'](fd)

    def sim_fsync(fd):
        for f in ch.inflight:
            if f._fd == fd:
                f.flush()
        return _real_os['fsync'](fd)

    def sim_link(src, dst, *a, **kw):
        rs, rd = guard(src, 'link'), guard(dst, 'link')
        xdev(rs, rd, src, dst)
        if os.path.lexists(dst):
            # a link never replaces an existing name: it fails before anything is touched - not an effect, not a fault point
            return _real_os['link'](src, dst, *a, **kw)
        ch.effect('link', src=rs, dst=rd)
        return done(_real_os['link'], src, dst, *a, **kw)

    def sim_symlink(src, dst, *a, **kw):
        rd = guard(dst, 'symlink')
        if os.path.lexists(dst):
            return _real_os['symlink'](src, dst, *a, **kw)
        ch.effect('symlink', src=os.fspath(src), dst=rd)
        return done(_real_os['symlink'], src, dst, *a, **kw)

    def sim_truncate(path, length):
        if isinstance(path, int):
            return _real_os['truncate'](path, length)
        rel = guard(path, 'truncate')
        ch.effect('truncate', path=rel, size=length)
        return done(_real_os['truncate'], path, length)

    def _dir_fault(path, via):
        if isinstance(path, int):
            return
        try:
            rel = ch.rel(path)
        except Exception:
            rel = None
        if rel is None:
            return
        ch.log({'k': 'listdir', 'path': rel, 'via': via})
        rp = (ch.plan.get('listdir') or {}).get(rel)
        if rp:
            ch.fired = True
            ch.log({'k': 'readfault', 'path': rel, 'plan': rp, 'via': via})
            code = getattr(errno_mod, rp.get('errno', 'EACCES'))
            raise _oserror(code, os.fspath(path))

    def sim_listdir(path='.'):
        _dir_fault(path, 'listdir')
        return _real_os['listdir'](path)

    def sim_scandir(path='.'):
        _dir_fault(path, 'scandir')
        return _real_os['scandir'](path)

    os.listdir = sim_listdir
    os.scandir = sim_scandir
    os.open = sim_os_open
    os.read = sim_os_read
    if 'pread' in _real_os:
        os.pread = sim_os_pread
    os.write = sim_os_write
    os.close = sim_os_close
    os.fsync = sim_fsync
    os.fdatasync = sim_fsync
    os.link = sim_link
    os.symlink = sim_symlink
    os.truncate = sim_truncate
    os.getpid = lambda: 4242            # names derived from the pid must not differ between replays
    try:
        import tempfile

        class _Names:
            def __init__(self):
                self.k = 0

            def __iter__(self):
                return self

            def __next__(self):
                self.k += 1
                return 'tsim%04d' % self.k
        tempfile._name_sequence = _Names()
        tempfile.tempdir = ch.tmp           # no probing of candidate directories; files there are effects like any other
        import random as _random
        _random.seed(0)
        import hashlib as _hl
        _ur = [0]

        def _urandom(n):
            out = b''
            while len(out) < n:
                _ur[0] += 1
                out += _hl.sha256(b'tallysim-urandom-%d' % _ur[0]).digest()
            return out[:n]
        os.urandom = _urandom
        _random._urandom = _urandom
        try:
            import secrets as _secrets
            _secrets._sysrand = _random.SystemRandom()
        except Exception:
            pass
        import uuid as _uuid
        _cnt = [0]

        def _uuid4():
            _cnt[0] += 1
            return _uuid.UUID(int=_cnt[0])
        _uuid.uuid4 = _uuid4
    except Exception:
        pass
    os.rename = sim_rename
    os.replace = sim_replace
    os.mkdir = sim_mkdir
    os.unlink = sim_unlink
    os.remove = sim_unlink
    os.rmdir = sim_rmdir
    import shutil
    shutil._USE_CP_SENDFILE = False
    shutil._use_fd_functions = False
    if hasattr(shutil, '_USE_CP_COPY_FILE_RANGE'):
        shutil._USE_CP_COPY_FILE_RANGE = False

    # ---- tty
    tty = plan.get('tty') or {}
    answers = list(tty.get('answers') or [])
    outfd = _real_os['open'](os.path.join(ch.ctl, 'out'), os.O_WRONLY | os.O_CREAT | os.O_APPEND, 0o644)
    errfd = _real_os['open'](os.path.join(ch.ctl, 'err'), os.O_WRONLY | os.O_CREAT | os.O_APPEND, 0o644)
    sys.stdout = SimStream(outfd, bool(tty.get('stdout')), '<stdout>')
    sys.stderr = SimStream(errfd, bool(tty.get('stderr', tty.get('stdout'))), '<stderr>')
    sys.stdin = SimStdin(bool(tty.get('stdin')))
    SimStream.broken = (ch, dict(plan['stdout_fault'])) if plan.get('stdout_fault') else None
    SimStream.stdout_encoding = plan.get('stdout_encoding') or 'utf-8'

    def sim_input(prompt=''):
        sys.stdout.write(str(prompt))
        if not answers:
            ch.log({'k': 'input', 'answer': '<EOF>'})
            raise EOFError('EOF when reading a line')
        a = answers.pop(0)
        if isinstance(a, dict):
            # while the command waits for the answer, somebody else acts on the budget (an editor saves a file, a sync client
            # delivers one): done with the un-interposed calls - it is not the simulated process that writes
            for rel_, text_ in sorted((a.get('actor') or {}).get('write', {}).items()):
                p_ = os.path.join(ch.root, rel_)
                try:
                    os.makedirs(os.path.dirname(p_), exist_ok=True) if not os.path.isdir(os.path.dirname(p_)) else None
                except OSError:
                    pass
                with _real_open(p_, 'wb') as f_:
                    f_.write(text_.encode('utf-8'))
                ch.log({'k': 'actor', 'path': rel_, 'size': len(text_)})
            a = a.get('answer', '')
        ch.log({'k': 'input', 'answer': a})
        if a == '<EOF>':
            raise EOFError('EOF when reading a line')
        if a == '<KBI>':
            raise KeyboardInterrupt()
        return a

    builtins.input = sim_input

    # ---- network
    import urllib.request
    import urllib.error
    net = plan.get('net', 'down')

    class _Resp:
        def __init__(self, body):
            self._b = body
            self.headers = {}

        def read(self, n=-1):
            b, self._b = self._b, b''
            return b

        def __enter__(self):
            return self

        def __exit__(self, *a):
            return False

    def sim_urlopen(req, *a, **kw):
        url = req.full_url if hasattr(req, 'full_url') else str(req)
        ch.log({'k': 'net', 'url': url, 'mode': net})
        if net == 'down':
            raise urllib.error.URLError('tallysim: network is down')
        if net == 'timeout':
            import socket
            raise socket.timeout('tallysim: timed out')
        if net == '403':
            raise urllib.error.HTTPError(url, 403, 'rate limit exceeded', {}, None)
        if net == 'garbage':
            return _Resp(b'<html>not json</html>')
        ver = {'same': 'v0.1.0', 'newer': 'v9.9.9', 'older': 'v0.0.1'}.get(net, 'v0.1.0')
        doc = {'tag_name': ver, 'assets': [], 'html_url': 'https://example.invalid/rel', 'prerelease': False,
               'name': ver}
        if url.endswith('/releases'):
            return _Resp(json.dumps([doc]).encode())
        return _Resp(json.dumps(doc).encode())

    urllib.request.urlopen = sim_urlopen

    # ---- clock (pinned; a test history may move it with ch.set_today - a long-lived process can live through midnight)
    import datetime as _dt
    ch.today = [int(x) for x in plan.get('today', '2025-06-15').split('-')]

    def set_today(text):
        ch.today[:] = [int(x) for x in text.split('-')]
        ch.log({'k': 'clock-set', 'today': text})
    ch.set_today = set_today

    class SimDate(_dt.date):
        @classmethod
        def today(cls):
            return _dt.date(*ch.today)

    class SimDateTime(_dt.datetime):
        @classmethod
        def now(cls, tz=None):
            return _dt.datetime(ch.today[0], ch.today[1], ch.today[2], 12, 0, 0, tzinfo=tz)

        @classmethod
        def today(cls):
            return _dt.datetime(ch.today[0], ch.today[1], ch.today[2], 12, 0, 0)

        @classmethod
        def utcnow(cls):
            return _dt.datetime(ch.today[0], ch.today[1], ch.today[2], 12, 0, 0)

    try:
        import tally.modifier_parser as mp
        mp.date = SimDate
    except Exception:
        pass
    import types
    shim = types.ModuleType('datetime')
    for k in dir(_dt):
        if not k.startswith('__'):
            setattr(shim, k, getattr(_dt, k))
    shim.datetime = SimDateTime
    shim.date = SimDate
    sys.modules['datetime'] = shim

    def no_time(*a, **kw):
        ch.log({'k': 'clock-read'})
        return 1750000000.0 + 86400.0 * (_dt.date(*ch.today) - _dt.date(2025, 6, 15)).days
    time.time = no_time

    # ---- evaluation boundary (C08 "buggify"): ExpressionError for chosen (expression text, item id) pairs
    ef = plan.get('eval_faults')
    if ef:
        import ast as _ast
        import re as _re
        from tally import expr_parser as _ep
        pairs = set((e, str(i)) for e, i in ef)
        texts = set(e for e, _ in pairs)
        tree_text = {}
        real_parse = _ep.parse_expression

        def rec_parse(expr):
            tree = real_parse(expr)
            if expr in texts:
                tree_text[id(tree)] = expr
            return tree
        _ep.parse_expression = rec_parse

        def item_of_txn(ctx):
            m = _re.findall(r'r(\d+)', str(getattr(ctx, 'description', '') or ''))
            return m[-1] if m else ''

        def item_of_merchant(ctx):
            ts = getattr(ctx, 'transactions', None) or []
            return str(ts[0].get('merchant', '')) if ts else ''

        def wrap(cls, item_of):
            real_eval = cls.evaluate

            def evaluate(self, node):
                if type(node) is _ast.Expression:
                    t = tree_text.get(id(node))
                    if t is not None and (t, item_of(self.ctx)) in pairs:
                        ch.log({'k': 'evalfault', 'expr': t, 'item': item_of(self.ctx)})
                        raise _ep.ExpressionError('tallysim: injected evaluation failure')
                return real_eval(self, node)
            cls.evaluate = evaluate
        wrap(_ep.TransactionEvaluator, item_of_txn)
        wrap(_ep.ExpressionEvaluator, item_of_merchant)

    # ---- environment
    env = {'NO_COLOR': '1', 'COLUMNS': '80', 'TZ': 'UTC', 'LC_ALL': 'C.UTF-8', 'PATH': '',
           'HOME': '/nonexistent', 'PYTHONHASHSEED': os.environ.get('PYTHONHASHSEED', '0'), 'TMPDIR': ch.tmp}
    if plan.get('lc_time') and os.environ.get('TALLYSIM_LOCPATH'):
        # a locale the machine has installed, named for one category only (LC_ALL would override it)
        env.pop('LC_ALL')
        env.update({'LANG': 'C.UTF-8', 'LC_TIME': plan['lc_time'], 'LOCPATH': os.environ['TALLYSIM_LOCPATH']})
    env.update(plan.get('env') or {})
    os.environ.clear()
    os.environ.update(env)


_LOCALE_SRC = '''comment_char %
escape_char /

LC_TIME
abday "zo";"ma";"di";"wo";"do";"vr";"za"
day "zondag";"maandag";"dinsdag";"woensdag";"donderdag";"vrijdag";"zaterdag"
abmon "jan";"feb";"mrt";"apr";"mei";"jun";"jul";"aug";"sep";"okt";"nov";"dec"
mon "januari";"februari";"maart";"april";"mei";"juni";"juli";"augustus";"september";"oktober";"november";"december"
d_t_fmt "%a %d %b %Y %T"
d_fmt "%d-%m-%y"
t_fmt "%T"
am_pm "";""
t_fmt_ampm ""
END LC_TIME
'''


def build_locale(root):
    """The simulated machine has one more locale installed than this sandbox: a minimal Dutch LC_TIME, compiled with localedef
    into the batch's scratch directory and found through LOCPATH.  Without localedef the dimension is simply absent."""
    import shutil
    import subprocess
    os.environ.pop('TALLYSIM_LOCPATH', None)
    exe = shutil.which('localedef')
    if not exe:
        return False
    os.makedirs(root, exist_ok=True)
    cm = ['<code_set_name> ANSI_X3.4-1968', '<comment_char> %', '<escape_char> /', 'CHARMAP']
    cm += ['<U%04X>     /x%02x         CHAR%d' % (c, c, c) for c in range(128)]
    cm.append('END CHARMAP')
    with _real_open(os.path.join(root, 'ascii.cm'), 'w') as fh:
        fh.write('\n'.join(cm) + '\n')
    with _real_open(os.path.join(root, 'nl_src'), 'w') as fh:
        fh.write(_LOCALE_SRC)
    subprocess.run([exe, '-c', '-f', os.path.join(root, 'ascii.cm'), '-i', os.path.join(root, 'nl_src'), os.path.join(root, 'nl_NL')],
                   stdout=subprocess.DEVNULL, stderr=subprocess.DEVNULL)
    if os.path.exists(os.path.join(root, 'nl_NL', 'LC_TIME')):
        os.environ['TALLYSIM_LOCPATH'] = root
        return True
    return False


def _reimport_optimized():
    """The interpreter was started with -O / PYTHONOPTIMIZE=1: tally's modules as they are then - compiled from source with
    assert statements and `if __debug__` blocks removed.  (The flag cannot be flipped in a running interpreter, so the
    simulated process re-imports tally through a loader that compiles with optimize=1; nothing is written to disk.)"""
    import importlib.abc
    import importlib.machinery
    import importlib.util
    from . import REPO
    src = os.path.realpath(os.path.join(REPO, 'src'))
    for name in [m for m in sys.modules if m == 'tally' or m.startswith('tally.')]:
        del sys.modules[name]

    class OptLoader(importlib.machinery.SourceFileLoader):
        def get_code(self, fullname):
            path = self.get_filename(fullname)
            with _real_open(path, 'rb') as f:
                data = f.read()
            return compile(data, path, 'exec', dont_inherit=True, optimize=1)

    class OptFinder(importlib.abc.MetaPathFinder):
        def find_spec(self, fullname, path=None, target=None):
            if fullname != 'tally' and not fullname.startswith('tally.'):
                return None
            rel = fullname.split('.')
            base = os.path.join(src, *rel)
            if os.path.isdir(base) and os.path.exists(os.path.join(base, '__init__.py')):
                file, pkg = os.path.join(base, '__init__.py'), True
            elif os.path.exists(base + '.py'):
                file, pkg = base + '.py', False
            else:
                return None
            return importlib.util.spec_from_file_location(fullname, file, loader=OptLoader(fullname, file),
                                                          submodule_search_locations=[base] if pkg else None)
    sys.meta_path.insert(0, OptFinder())
    import tally.cli  # noqa: F401


def _say(text):
    """What the interpreter itself would print on stderr at exit (a traceback, SystemExit's message) - lost without further
    ado when stderr has gone away."""
    try:
        sys.stderr.write(text)
    except OSError:
        dbg = os.environ.get('TALLYSIM_LOST_STDERR')      # debugging aid: where to keep what could not be said
        if dbg:
            with _real_open(dbg, 'a') as fh:
                fh.write(text)


def _child_main(root, ctl, cwd, plan, target):
    """Runs in the forked child.  Never returns."""
    code = 70
    try:
        if (plan or {}).get('pyopt'):
            _reimport_optimized()
        os.chdir(os.path.join(root, cwd or '.'))
        ch = _Child(root, ctl, plan)
        _install(ch)
        try:
            code = target(ch)
            if code is None:
                code = 0
        except SystemExit as e:
            c = e.code
            if c is None:
                code = 0
            elif isinstance(c, int):
                code = c
            else:
                _say(str(c) + '\n')
                code = 1
        except KeyboardInterrupt:
            _say('KeyboardInterrupt\n')
            code = 130
        except BaseException:
            _say(traceback.format_exc())
            code = 1
        import threading
        unclosed = [f._rel for f in ch.inflight]
        for f in list(ch.inflight):     # interpreter exit would flush them
            try:
                f.close()
            except BaseException:
                pass
        ch.log({'k': 'exit', 'code': code, 'threads': threading.active_count(), 'unclosed': unclosed,
                'fired': ch.fired, 'effects': ch.n})
    except BaseException:
        try:
            with _real_open(os.path.join(ctl, 'harness_error'), 'w') as f:
                f.write(traceback.format_exc())
        except BaseException:
            pass
        code = 71
    finally:
        _real_os['_exit'](code & 0xFF)


# --------------------------------------------------------------------------- parent side

class HarnessError(Exception):
    pass


class ProcResult:
    __slots__ = ('exit', 'out', 'err', 'effects', 'events', 'fired', 'result', 'crashed', 'meta')

    def __init__(self):
        self.exit = None
        self.out = ''
        self.err = ''
        self.effects = []   # numbered effects actually performed
        self.events = []    # everything logged
        self.fired = False
        self.result = None
        self.crashed = False
        self.meta = {}

    def text(self):
        return self.out + '\n' + self.err


def _read(path, binary=False):
    try:
        with _real_open(path, 'rb') as f:
            b = f.read()
    except FileNotFoundError:
        b = b''
    return b if binary else b.decode('utf-8', 'replace')


_ctl_seq = [0]


# per-run environment defaults (set by the driver from the seed, stored in replay files): plan keys every simulated
# process of the run gets unless its own plan says otherwise.  Today: 'locale_encoding'.
RUN_DEFAULTS = {}


def spawn(world, plan, target, cwd='.', ctl_parent=None, timeout=PROC_TIMEOUT_S):
    """Fork a simulated process in `world`, run target(ch) in it, collect what it did."""
    import shutil
    if RUN_DEFAULTS:
        plan = dict(RUN_DEFAULTS, **(plan or {}))
    ctl_parent = ctl_parent or (world.rstrip('/') + '.ctl')
    os.makedirs(ctl_parent, exist_ok=True)
    _ctl_seq[0] += 1
    ctl = os.path.join(ctl_parent, 'p%d' % _ctl_seq[0])
    if os.path.isdir(ctl):
        shutil.rmtree(ctl)
    os.mkdir(ctl)
    os.makedirs(os.path.realpath(world) + '.tmpfs', exist_ok=True)
    sys.stdout.flush()
    sys.stderr.flush()
    signal.pthread_sigmask(signal.SIG_BLOCK, [signal.SIGCHLD])
    pid = os.fork()
    if pid == 0:
        _child_main(world, ctl, cwd, plan, target)
        os._exit(72)
    deadline = time.monotonic() + timeout
    status = None
    while True:
        wpid, st = os.waitpid(pid, os.WNOHANG)
        if wpid == pid:
            status = st
            break
        remaining = deadline - time.monotonic()
        if remaining <= 0:
            try:
                os.kill(pid, signal.SIGKILL)
            except ProcessLookupError:
                pass
            os.waitpid(pid, 0)
            shutil.rmtree(ctl, ignore_errors=True)
            raise HarnessError('simulated process exceeded %.0fs wall clock: plan=%r' % (timeout, plan))
        signal.sigtimedwait([signal.SIGCHLD], min(remaining, 1.0))
    r = ProcResult()
    if os.WIFSIGNALED(status):
        he = 'killed by signal %d' % os.WTERMSIG(status)
        shutil.rmtree(ctl, ignore_errors=True)
        raise HarnessError('simulated process ' + he)
    r.exit = os.WEXITSTATUS(status)
    herr = _read(os.path.join(ctl, 'harness_error'))
    if herr or r.exit in (70, 71, 72):
        shutil.rmtree(ctl, ignore_errors=True)
        raise HarnessError('seam failure in simulated process:\n' + herr)
    r.out = _read(os.path.join(ctl, 'out'))
    r.err = _read(os.path.join(ctl, 'err'))
    for line in _read(os.path.join(ctl, 'effects')).splitlines():
        try:
            rec = json.loads(line)
        except ValueError:
            continue
        r.events.append(rec)
        if 'fault' in rec:
            r.fired = True
        elif rec.get('k') == 'effect-failed':
            pass        # annotation: the operating system refused effect n by itself (it stays in the trace: it is a step that can also be faulted)
        elif 'n' in rec:
            r.effects.append(rec)
        if rec.get('k') == 'exit':
            r.meta = rec
        if rec.get('k') in ('escape', 'unsupported'):
            shutil.rmtree(ctl, ignore_errors=True)
            raise HarnessError('simulated process left the modelled surface: %r' % rec)
    r.crashed = (r.exit == 137 and not r.meta)
    res = _read(os.path.join(ctl, 'result'))
    if res:
        r.result = json.loads(res)
    if r.meta and r.meta.get('threads', 1) != 1:
        raise HarnessError('simulated process had %d threads' % r.meta['threads'])
    shutil.rmtree(ctl, ignore_errors=True)
    return r


def run_cli(world, argv, plan=None, cwd='.', **kw):
    """Run `tally <argv>` as a simulated process."""
    argv = list(argv)

    def target(ch):
        import tally.cli
        sys.argv = ['tally'] + argv
        tally.cli.main()
        return 0
    return spawn(world, plan or {}, target, cwd=cwd, **kw)


def run_func(world, fn, plan=None, cwd='.', **kw):
    """Run fn() in a simulated process; its JSON-able return value comes back as .result."""
    def target(ch):
        res = fn()
        fd = _real_os['open'](os.path.join(ch.ctl, 'result'), os.O_WRONLY | os.O_CREAT | os.O_TRUNC, 0o644)
        data = json.dumps(res, sort_keys=True, default=_default).encode('utf-8')
        while data:
            k = _real_os['write'](fd, data)
            data = data[k:]
        _real_os['close'](fd)
        return 0
    return spawn(world, plan or {}, target, cwd=cwd, **kw)


def _default(o):
    if isinstance(o, (set, frozenset)):
        return sorted(o, key=repr)
    if isinstance(o, bytes):
        return o.decode('utf-8', 'replace')
    return repr(o)
