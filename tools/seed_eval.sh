#!/bin/bash
# usage: seed_eval.sh <name> <property> <seed-dir-with-patch.diff,demo.py,notes.md> [tier]
# Confirms a seeded change in a scratch worktree (applies, baseline passes, demo fails with / passes without),
# stores it under /verif/seeded/<name>/, runs the property's check against it, removes the worktree.
set -u
name=$1; prop=$2; src=$3; tier=${4:-quick}
dst=/verif/seeded/$name
mkdir -p $dst
for f in patch.diff demo.py notes.md; do [ -f $src/$f ] && cp $src/$f $dst/$f; done
wt=/tmp/seedwt-$$
git -C /repo worktree add -q --detach $wt HEAD || exit 3
( cd $wt && git apply $dst/patch.diff ) || { echo "PATCH DOES NOT APPLY"; git -C /repo worktree remove --force $wt; exit 3; }
base=$(/venv/bin/python /verif/selftest/baseline.py $wt | head -1)
/venv/bin/python $dst/demo.py $wt/src > /tmp/seed-demo-with.log 2>&1; dw=$?
/venv/bin/python $dst/demo.py /repo/src > /tmp/seed-demo-without.log 2>&1; dwo=$?
out=$(cd /verif && VERIF_REPO=$wt VERIF_EVIDENCE_DIR=/tmp/seed-ev-$$ VERIF_REPLAY_DIR=/tmp/seed-ev-$$ timeout 3000 /venv/bin/python -B /verif/check $prop --tier $tier 2>&1 | grep -v "^WARNING conda")
rc=$?
first=$(echo "$out" | grep -m1 "invariant=" | cut -c1-220)
last=$(echo "$out" | tail -1 | cut -c1-200)
echo "$name prop=$prop baseline=[$base] demo_with=$dw demo_without=$dwo check_exit=$(echo "$out" | grep -c '^VIOLATION') :: $first :: $last"
rm -rf /tmp/seed-ev-$$
git -C /repo worktree remove --force $wt
