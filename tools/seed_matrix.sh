#!/bin/bash
# every stored seeded change x every check (quick tier): which checks notice which change
cd "$(dirname "$0")/.."
V=$PWD
for d in seeded/*/; do
  name=$(basename $d)
  wt=/tmp/seedmx-$$
  git -C /repo worktree add -q --detach $wt HEAD || exit 3
  ( cd $wt && git apply $V/$d/patch.diff ) || { echo "$name PATCH-DOES-NOT-APPLY"; git -C /repo worktree remove --force $wt; continue; }
  row="$name"
  for p in C15 C20 C07 C11 C05 C08 C17; do
    VERIF_REPO=$wt VERIF_EVIDENCE_DIR=/tmp/seedmx-ev-$$ VERIF_REPLAY_DIR=/tmp/seedmx-ev-$$ timeout 3000 /venv/bin/python -B $V/check $p --tier quick > /tmp/seedmx-out-$$ 2>&1
    rc=$?
    row="$row $p=$rc"
  done
  echo "$row"
  rm -rf /tmp/seedmx-ev-$$ /tmp/seedmx-out-$$
  git -C /repo worktree remove --force $wt
done
