#!/venv/bin/python
"""Regenerate /verif/MANIFEST.json from the table below (kept in one place so it stays valid)."""
import json, os
NA = {
 "C01": "pure function of (rule file, transaction): first-match order has no crash, fault, clock, schedule or history clause for a simulator to inject; deciding it would be input generation against a reference, not simulation",
 "C02": "pure function of (rule file, transaction): tag union over matching rules; nothing environmental (its 'tag not evaluable is dropped' clause is exercised by C08's tag sites)",
 "C03": "statement over every expression string and evaluator node type (sandbox confinement); no schedule, fault, clock or history in it",
 "C04": "semantics of a pure expression evaluator against a reference; no environment involved",
 "C06": "algebraic conservation law over a list of transactions; pure computation",
 "C09": "pure function of (rule file, transaction) under most_specific mode; rule order is a permutation of the input, not a schedule",
 "C10": "pure function of (views file, merchants); its 'unevaluable filter excludes the merchant' clause is exercised by C08's view sites",
 "C12": "pure rendering of one analysis result into four formats; no environment involved",
 "C13": "equivalence of two pure programs (Python and JS classification); no browser available and nothing to schedule or fault",
 "C14": "equivalence of two rule programs (CSV vs migrated .rules) over all transactions; the crash/fault side of migration is C15, which is claimed",
 "C16": "three pure functions of the same directory, each in its own process; no shared state, nothing can interleave",
 "C18": "pure parsing: format string <-> column positions and inspect round-trip",
 "C19": "pure function of the description string (suggested rule matches its transaction); termination is a corollary, not a schedule",
}
PENDING = {
}
CHECKS = {
 "C15": dict(cat="fault_enumeration", ref="5.1",
   text="Per seeded scenario (budget x migration command x TTY/peer seams) the golden run's file-system effect trace is swept completely: crash before every effect with the in-flight file empty/partial/full, one OSError of every legal errno at every effect, KeyboardInterrupt at every effect (thorough: depth 2, a crash during the recovery run). After each, only the disk survives; a fresh simulated `tally up` must classify as before, directly or after one fault-free re-run, no user content may be lost, and never 'all Unknown while the rules exist'. Enumeration over the real code's recorded trace is the right level for a property quantified over 'every prefix' and 'each single step'; scenarios are sampled by seed; rare world variants (symbolic links for the config directory / settings.yaml / the CSV, leftover files of an earlier interrupted run, settings naming the CSV or a comments-only .rules file, odd output_dir) are stratified over the run index. Read faults on every file the command read, a disk that stays full / read-only, a path that stays locked, and a second file system for $TMPDIR are part of the sweep. Every run additionally draws a machine environment from the seed (locale encoding used by text opens that name none; one run in eight under an interpreter started with -O), and a quarter as many further runs are made by a second harness under another PYTHONHASHSEED; all of it is recorded in the replay file. Short writes: every fd-level os.write of the trace also stores only half of its buffer and says so, the disk full from then on (fired only where the code under test writes through raw file descriptors).",
   note="process-kill durability model (ordered effects, any prefix of the in-flight file); Python-level seam (open/os/shutil/pathlib) audited against before/after tree snapshots on every process; classification observed through `tally up --format json -v`; GitHub peer, TTY user and clock are stubs",
   tech="deterministic simulation: forked simulated processes under an interposed file system, exhaustive crash/OSError/interrupt sweep of the recorded effect trace, seeded scenarios"),
 "C20": dict(cat="exploration", ref="5.2",
   text="Seeded histories of 3-8 real tally commands (up/explain/discover/diag/inspect/init/up --migrate in all their variants, config found by argument, cwd or TALLY_CONFIG, no TTY or a TTY that declines) over seeded budgets; after every simulated process a frame condition is evaluated over complete before/after tree snapshots AND the audited effect log (so write-then-restore is also seen). A quarter of the histories (thorough: half) carry one crash / read fault / OSError inside a read-only command, and in half of them every effect of every `init` step is re-run under OSError / crash / disk-stays-full from the same starting tree, with the same oracle. Stratified histories cover budgets with one settings file per year. Every run additionally draws a machine environment from the seed (locale encoding used by text opens that name none; one run in eight under an interpreter started with -O), and a quarter as many further runs are made by a second harness under another PYTHONHASHSEED; all of it is recorded in the replay file. The init sweep also shortens every fd-level write and makes every directory the golden run listed unlistable (EACCES, EIO).",
   note="same seam and audit as C15; output location derived from the model the settings were rendered from; generated settings never point output at a user file",
   tech="deterministic simulation: seeded command histories over an interposed file system, frame-condition oracle over snapshots + effect log, fault injection in read-only commands"),
 "C07": dict(cat="exploration", ref="5.3",
   text="One long-lived simulated process executes a seeded history of loads (.rules/CSV, valid, edited, failing under injected read faults), classifications, engine matches, expression and filter evaluations; every result is compared with a freshly forked reference process that performs only the most recent load and that operation (refinement against a stateless reference), and rules/variables/transforms/supplemental rows/cached ASTs/transaction fields are deep-compared around every operation. Histories also contain whole tally commands run through main() in the long-lived process, moves of the simulated calendar (the reference runs on the same day), interleaved view-side and transaction-side work over every syntax node kind, and argument-variation groups (one function, one argument varied) in both orders. Every run additionally draws a machine environment from the seed (locale encoding used by text opens that name none; one run in eight under an interpreter started with -O), and a quarter as many further runs are made by a second harness under another PYTHONHASHSEED; all of it is recorded in the replay file.",
   note="the reference is tally itself in a fresh process (literal 'fresh process' of the property); pools are built to collide (case-only, whitespace-only, quote-only differences; shared rule names)",
   tech="deterministic simulation: seeded operation histories in a long-lived process vs fresh-process reference, read-fault injection on loads"),
 "C11": dict(cat="exploration", ref="5.4",
   text="Seeded budgets rendered from a model; `tally up` (HTML and JSON) runs as a simulated process fault-free and then once per (source, fault kind: absent, EACCES, EISDIR, EIO mid-read, invalid UTF-8). Oracle: the report equals the model over the readable sources, the failing source is named, all-sources-failing exits non-zero; fault-free the report equals the model (wiring clause, by-product). Further fault kinds: content the csv module refuses, a transient read error (once), stray non-UTF-8 bytes judged decoding-agnostically, and the same on the supplemental source with an either-or oracle (the rules had all of its rows or none). Budgets contain symbolic links, run with TALLY_CONFIG naming another budget, have long statements, twin rows, two sources over one file, views whose variables shadow the file's. Every run additionally draws a machine environment from the seed (locale encoding used by text opens that name none; one run in eight under an interpreter started with -O), and a quarter as many further runs are made by a second harness under another PYTHONHASHSEED; all of it is recorded in the replay file. Budgets with several accounts pin a rule to the account that is read last (state a failing source leaves in the process shows there); one run in five has a stdout that cannot encode everything (ascii / latin-1, strict), one run in eleven a Dutch LC_TIME in the calling shell; statements carry a damaged line now and then and currency cells with grouping separators in odd places; a command that stops with a traceback over its output streams is counted, not judged.",
   note="classification in the model is obtained from the real engine with explicit arguments in a fresh process (C01/C02/C09 trusted here); generated strings avoid C12/C08 territory",
   tech="deterministic simulation: per-source read-fault injection under `tally up`, model-based report oracle"),
 "C05": dict(cat="exploration", ref="5.5",
   text="Statements rendered from a row table under seeded layouts; single-row corruption at rest (each enumerated class) and truncation at arbitrary bytes; oracle: transactions attributable to untouched rows are exactly those of the fault-free parse, in order; the damaged row yields none; fault-free the transactions are in bijection with the written rows (by-product). Read faults (once or persistent, mid-file, at the first read, at the read that would report EOF) and a non-UTF-8 byte: the reader may refuse the file, never hand out other rows than the clean read. Statements of up to 420 rows; violations are shrunk row by row. Every run additionally draws a machine environment from the seed (locale encoding used by text opens that name none; one run in eight under an interpreter started with -O), and a quarter as many further runs are made by a second harness under another PYTHONHASHSEED; all of it is recorded in the replay file.",
   note="parse_generic_csv in a forked process per case; the generator stays inside what the statement fixes (no BOM, balanced quotes)",
   tech="deterministic simulation: corrupt-at-rest and torn-file fault injection against a row-table model"),
 "C08": dict(cat="exploration", ref="5.6",
   text="ExpressionError injected at each evaluation call site for a chosen (expression, item) pair, plus a pool of naturally failing expressions whose failure is determined by tally's own evaluator; oracle: the call returns normally, nothing is lost, and the item's result equals the fault-free result with the failing rule/tag/field/view removed for it. Natural failures are stratified over (site x what the evaluation raises underneath), including syntax outside the language at the one site where it passes the loader; one case in ten repeats its items to 140-300 rows with sampled rows re-read as one-row statements in fresh processes; `tally up` runs on rules and legacy budgets with a supplemental source that is sometimes unloadable, on pinned days including both leap days. Every run additionally draws a machine environment from the seed (locale encoding used by text opens that name none; one run in eight under an interpreter started with -O), and a quarter as many further runs are made by a second harness under another PYTHONHASHSEED; all of it is recorded in the replay file. Runs under python -O (one in seven, by run index) walk through the value expressions at the sites that keep the value; whether an expression can be evaluated at all is asked of an ordinary interpreter, never of the one under test. The command budget is spread over two statements.",
   note="only ExpressionError is injected (the one exception every call site is contractually prepared for); natural failures are determined, not assumed",
   tech="deterministic simulation: evaluation-boundary fault injection (buggify) + containment oracle by rule deletion"),
 "C17": dict(cat="exploration", ref="5.7",
   text="merchants.rules / views.rules rendered from a structural model under seeded layouts; single-point corruptions of the enumerated classes and torn tails at line boundaries must be rejected naming the line; at command level (tally up / diag, with EACCES/EIO/bad-UTF-8 read faults as well) the loader's failure must be reported instead of running with no rules; uncorrupted renderings parse to the model (by-product), including property values with characters that are special in YAML / INI / shells / CSV. A file every read of which fails must not be accepted by the loader; damaged files are also reached through symbolic links whose target has another name; explain and discover are observers too. Every run additionally draws a machine environment from the seed (locale encoding used by text opens that name none; one run in eight under an interpreter started with -O), and a quarter as many further runs are made by a second harness under another PYTHONHASHSEED; all of it is recorded in the replay file. Each observing command is run again with nobody reading stderr: it may stop over that or say it on stdout, it may not end successfully without having reported the file.",
   note="corruption classes restricted to those the statement enumerates; raw byte flips that yield a different valid file are outside the oracle",
   tech="deterministic simulation: corrupt-at-rest, torn-tail and read-fault injection on stored rule files, loader + command-level observers"),
}
IMPLEMENTED = [l.strip() for l in open('/verif/tools/implemented.txt') if l.strip()]
checks = []
for pid in IMPLEMENTED:
    c = CHECKS[pid]
    checks.append({
        "property_id": pid,
        "quick_cmd": "timeout 1500 /venv/bin/python -B /verif/check %s --tier quick" % pid,
        "thorough_cmd": "timeout 7200 /venv/bin/python -B /verif/check %s --tier thorough" % pid,
        "evidence_file": "/verif/evidence/%s.json" % pid,
        "replay_cmd_template": "/venv/bin/python -B /verif/check %s --replay {path}" % pid,
        "engine": "tallysim",
        "level_claimed": {"category": c["cat"], "text": c["text"], "design_ref": "DESIGN.md " + c["ref"]},
        "level_note": c["note"],
        "technique": c["tech"],
    })
na = [{"property_id": k, "reason": v} for k, v in sorted(NA.items())]
for pid in sorted(CHECKS):
    if pid not in IMPLEMENTED:
        na.append({"property_id": pid, "reason": "check not built yet in this snapshot (planned: DESIGN.md %s); not claimed until it is" % CHECKS[pid]["ref"]})
m = {
 "version": 1,
 "setup_cmd": "/venv/bin/python -B /verif/check --selfcheck",
 "hooks": {"guard": "TALLY_VERIF", "enable": "no hooks: every seam is an existing module boundary replaced from outside /repo inside the forked simulated process only; checks import tally from /repo/src (VERIF_REPO) on every run", "baseline_off_cmd": "/venv/bin/python /verif/selftest/baseline.py /repo", "source_commits": [], "add_only": True},
 "engines": [{"name": "tallysim", "path": "/verif/tallysim", "serves_properties": IMPLEMENTED, "kind_free_text": "deterministic simulation with fault injection: each tally command is a forked process under an interposed file system / TTY / network / clock, driven by one seed (VERIF_SEED)"}],
 "checks": checks,
 "not_applicable": na,
 "notes": "see DESIGN.md; known_findings.json lists genuine defects found (all currently 'fixed' by fix: commits in /repo)",
}
json.dump(m, open('/verif/MANIFEST.json', 'w'), indent=1)
print('manifest: %d checks, %d not applicable' % (len(checks), len(na)))
