#!/bin/bash
# every stored seeded change against the check of its own property (quick tier): regression test of the checks themselves.
# usage: seed_regress.sh [name-glob]      prints one line per seed: name property exit-status (1 = caught)
cd "$(dirname "$0")/.."
V=$PWD
for d in seeded/${1:-*}/; do
  name=$(basename $d)
  prop=$(/venv/bin/python -c "import json,sys;print(json.load(open('$d/meta.json'))['property'])")
  by=$(/venv/bin/python -c "import json,re;m=json.load(open('$d/meta.json'));x=re.match(r'(C\d\d)', m.get('by',''));print(x.group(1) if x else m['property'])")
  wt=/tmp/seedrg-$$
  base=$(/venv/bin/python -c "import json;print(json.load(open('$d/meta.json')).get('base','HEAD'))")
  pf=$V/$d/patch.diff; [ -f $V/$d/patch-rebased.diff ] && pf=$V/$d/patch-rebased.diff
  git -C /repo worktree add -q --detach $wt $base || exit 3
  ( cd $wt && git apply $pf ) 2>/dev/null || { echo "$name $prop PATCH-DOES-NOT-APPLY"; git -C /repo worktree remove --force $wt; continue; }
  VERIF_MAX_REPORTED=1 VERIF_SHRINK_BUDGET=0 VERIF_REPO=$wt VERIF_EVIDENCE_DIR=/tmp/seedrg-ev-$$ VERIF_REPLAY_DIR=/tmp/seedrg-ev-$$ timeout 3000 /venv/bin/python -B $V/check $by --tier quick > /tmp/seedrg-out-$$ 2>&1
  rc=$?
  echo "$name $prop by=$by exit=$rc $(grep -m1 -o 'invariant=[A-Z0-9]*' /tmp/seedrg-out-$$)"
  rm -rf /tmp/seedrg-ev-$$ /tmp/seedrg-out-$$
  git -C /repo worktree remove --force $wt
done
