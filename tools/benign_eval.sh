#!/bin/bash
# usage: benign_eval.sh <name> <dir-with-patch.diff>   : a behaviour-preserving change must not alarm any check
name=$1; src=$2
dst=/verif/seeded-benign/$name; mkdir -p $dst
for f in patch.diff notes.md; do [ -f $src/$f ] && cp $src/$f $dst/$f 2>/dev/null; done
wt=/tmp/benignwt-$$
git -C /repo worktree add -q --detach $wt HEAD || exit 3
( cd $wt && git apply $dst/patch.diff ) || { echo "$name PATCH DOES NOT APPLY"; git -C /repo worktree remove --force $wt; exit 3; }
base=$(/venv/bin/python /verif/selftest/baseline.py $wt | head -1)
row="$name [$base]"
for p in C15 C20 C07 C11 C05 C08 C17; do
  out=$(cd /verif && VERIF_REPO=$wt VERIF_EVIDENCE_DIR=/tmp/benign-ev-$$ VERIF_REPLAY_DIR=/verif/replays timeout 3000 /venv/bin/python -B /verif/check $p --tier quick 2>&1 | grep -v "^WARNING conda")
  n=$(echo "$out" | grep -c "^VIOLATION"); h=$(echo "$out" | grep -c "HARNESS-ERROR")
  row="$row $p=v$n/h$h"
  if [ "$n" != 0 ] || [ "$h" != 0 ]; then echo "$out" | grep -A2 "^VIOLATION\|HARNESS-ERROR" | head -8 | cut -c1-500; fi
done
echo "$row"
rm -rf /tmp/benign-ev-$$
git -C /repo worktree remove --force $wt
