#!/bin/bash
# run every thorough tier one after another (background sweeps; evidence goes to VERIF_EVIDENCE_DIR if set)
cd "$(dirname "$0")/.."
for p in C20 C11 C05 C17 C08 C07 C15; do
  echo "=== $p"; /venv/bin/python -B ./check $p --tier thorough 2>&1 | grep -v "^WARNING conda" | cut -c1-400
done
