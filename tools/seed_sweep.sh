#!/bin/bash
# false-alarm hunt on the unchanged tree: every quick check under many VERIF_SEED values
cd "$(dirname "$0")/.."
export VERIF_EVIDENCE_DIR=/tmp/seed-sweep-ev VERIF_REPLAY_DIR=$PWD/replays
lo=${1:-1}; hi=${2:-30}
for s in $(seq $lo $hi); do
  for p in C15 C20 C07 C11 C05 C08 C17; do
    out=$(VERIF_SEED=$s /venv/bin/python -B ./check $p --tier quick 2>&1 | grep -v "^WARNING conda")
    rc=$?
    echo "seed=$s $p $(echo "$out" | tail -1 | cut -c1-160)"
    echo "$out" | grep -A2 "^VIOLATION\|HARNESS-ERROR" | cut -c1-600
  done
done
