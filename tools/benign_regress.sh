#!/bin/bash
# every stored behaviour-preserving change against every check (quick tier): none may alarm.
# The patch is applied to /repo HEAD when it applies there, else to the older commit it was written against.
cd "$(dirname "$0")/.."
V=$PWD
for d in seeded-benign/${1:-*}/; do
  name=$(basename $d)
  wt=/tmp/benignrg-$$; used=
  for base in HEAD 78aea56 0bd460f 83fc808; do
    git -C /repo worktree add -q --detach $wt $base 2>/dev/null || continue
    if ( cd $wt && git apply $V/$d/patch.diff 2>/dev/null ); then used=$base; break; fi
    git -C /repo worktree remove --force $wt
  done
  [ -z "$used" ] && { echo "$name PATCH-DOES-NOT-APPLY"; continue; }
  row="$name base=$used"
  for p in C15 C20 C07 C11 C05 C08 C17; do
    out=$(VERIF_REPO=$wt VERIF_EVIDENCE_DIR=/tmp/benignrg-ev-$$ VERIF_REPLAY_DIR=/tmp/benignrg-rp-$name timeout 3000 /venv/bin/python -B $V/check $p --tier quick 2>&1 | grep -v "^WARNING conda")
    n=$(echo "$out" | grep -c "^VIOLATION"); h=$(echo "$out" | grep -c "HARNESS-ERROR")
    row="$row $p=v$n/h$h"
    if [ "$n" != 0 ] || [ "$h" != 0 ]; then echo "--- $name $p"; echo "$out" | grep -A2 "^VIOLATION\|HARNESS-ERROR" | cut -c1-420 | head -18; fi
  done
  echo "$row"
  rm -rf /tmp/benignrg-ev-$$
  git -C /repo worktree remove --force $wt
done
