#!/bin/bash
# usage: try_seed.sh <seed-name> <CHECK> [tier]  : run one check against a stored seeded change (scratch worktree, removed afterwards)
name=$1; prop=$2; tier=${3:-quick}
wt=/tmp/tryseed-$$
base=$(/venv/bin/python -c "import json;print(json.load(open('/verif/seeded/$name/meta.json')).get('base','HEAD'))" 2>/dev/null || echo HEAD)
pf=/verif/seeded/$name/patch.diff; [ -f /verif/seeded/$name/patch-rebased.diff ] && pf=/verif/seeded/$name/patch-rebased.diff
git -C /repo worktree add -q --detach $wt $base || exit 3
( cd $wt && git apply $pf ) || { echo "PATCH DOES NOT APPLY"; git -C /repo worktree remove --force $wt; exit 3; }
cd /verif && VERIF_REPO=$wt VERIF_EVIDENCE_DIR=/tmp/tryseed-ev-$$ VERIF_REPLAY_DIR=/tmp/tryseed-ev-$$ timeout 3000 /venv/bin/python -B /verif/check $prop --tier $tier 2>&1 | grep -v "^WARNING conda" | cut -c1-${CUT:-600}
rm -rf /tmp/tryseed-ev-$$
git -C /repo worktree remove --force $wt
