#!/venv/bin/python
"""Run the repository's pinned baseline (BASELINE.json stable_pass list) and compare.
exit 0 iff every stable_pass test passes."""
import json, os, subprocess, sys, tempfile
import xml.etree.ElementTree as ET
repo = sys.argv[1] if len(sys.argv) > 1 else '/repo'
base = json.load(open('/root/.vp/BASELINE.json'))
want = set(base['stable_pass'])
xmlf = tempfile.mktemp(suffix='.xml')
cmd = ['/venv/bin/python', '-m', 'pytest', '-ra', '-q', '-p', 'no:cacheprovider', '--timeout=900',
       '--continue-on-collection-errors', '--junitxml=' + xmlf]
env = dict(os.environ)
env.pop('TALLY_VERIF', None)
p = subprocess.run(cmd, cwd=repo, stdout=subprocess.PIPE, stderr=subprocess.STDOUT, env=env)
passed = set()
for tc in ET.parse(xmlf).getroot().iter('testcase'):
    name = '%s::%s' % (tc.get('classname'), tc.get('name'))
    if not any(ch.tag in ('failure', 'error', 'skipped') for ch in tc):
        passed.add(name)
os.unlink(xmlf)
missing = sorted(want - passed)
print('baseline: %d/%d stable tests pass' % (len(want & passed), len(want)))
for m in missing[:20]:
    print('  NOT PASSING:', m)
sys.exit(1 if missing else 0)
