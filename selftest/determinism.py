#!/venv/bin/python
"""Determinism self-test (not a registered command).

For every check and several VERIF_SEED values: run the same batch
  A  16 workers, PYTHONHASHSEED=0
  A' 16 workers, PYTHONHASHSEED=0   (same thing twice)
  B   3 workers, PYTHONHASHSEED=0   (static sharding must make the worker count irrelevant)
  C  16 workers, PYTHONHASHSEED=1   (fresh interpreter, other hash seed)
A, A', B must give identical batch digests (every run's event log hashed).  C must give identical verdicts and
coverage counters; its digest is reported too (stdout hashes may legitimately differ where tally prints a set).
usage: determinism.py [--runs N] [--seeds a,b,c] [CHECK ...]
"""
import json, os, subprocess, sys, tempfile, shutil
here = os.path.dirname(os.path.dirname(os.path.abspath(__file__)))
checks = [l.strip() for l in open(os.path.join(here, 'tools', 'implemented.txt')) if l.strip()]
runs = 24
seeds = [1, 7, 20261004]
args = sys.argv[1:]
sel = []
while args:
    a = args.pop(0)
    if a == '--runs':
        runs = int(args.pop(0))
    elif a == '--seeds':
        seeds = [int(x) for x in args.pop(0).split(',')]
    else:
        sel.append(a.upper())
if sel:
    checks = [c for c in checks if c in sel]


def run(check, seed, workers, hashseed):
    ev = tempfile.mkdtemp(prefix='tallydet-')
    env = dict(os.environ, VERIF_SEED=str(seed), VERIF_WORKERS=str(workers), TALLYSIM_HASHSEED=str(hashseed),
               VERIF_RUNS=str(runs), VERIF_EVIDENCE_DIR=ev, VERIF_REPLAY_DIR=ev)
    env.pop('TALLYSIM_BOOTED', None)
    p = subprocess.run([sys.executable, '-B', os.path.join(here, 'check'), check, '--tier', 'quick'],
                       stdout=subprocess.PIPE, stderr=subprocess.STDOUT, env=env, timeout=3000)
    try:
        e = json.load(open(os.path.join(ev, check + '.json')))
    except Exception:
        e = None
    shutil.rmtree(ev, ignore_errors=True)
    return p.returncode, e, p.stdout.decode('utf-8', 'replace')


def structural(e):
    c = e['coverage']
    return json.dumps({k: c.get(k) for k in ('evaluations', 'distinct_nontrivial', 'faults_fired', 'runs', 'distinct_violation_signatures')},
                      sort_keys=True) + ' violations=%s' % e.get('violations')


bad = 0
total = 0
for check in checks:
    for seed in seeds:
        a = run(check, seed, 16, 0)
        a2 = run(check, seed, 16, 0)
        b = run(check, seed, 3, 0)
        c = run(check, seed, 16, 1)
        total += 1
        if any(x[1] is None for x in (a, a2, b, c)):
            print('%s seed=%d: HARNESS-ERROR (no evidence): %s' % (check, seed, [x[0] for x in (a, a2, b, c)]))
            print(a[2][-800:])
            bad += 1
            continue
        da, da2, db, dc = (x[1]['coverage']['batch_digest'] for x in (a, a2, b, c))
        ok = da == da2 == db and structural(a[1]) == structural(c[1]) and a[0] == a2[0] == b[0] == c[0]
        print('%s seed=%d runs=%d: twice=%s  3-workers=%s  hashseed1: verdict/coverage=%s digest=%s  [%s]' % (
            check, seed, runs, da == da2, da == db, structural(a[1]) == structural(c[1]), 'same' if da == dc else 'differs', da[:12]), flush=True)
        if not ok:
            bad += 1
            print('   A :', structural(a[1]))
            print('   C :', structural(c[1]))
print('%d batches, %d nondeterministic' % (total, bad))
sys.exit(1 if bad else 0)
