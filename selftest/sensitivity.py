#!/venv/bin/python
"""Sensitivity self-test (not a registered command): apply each hand-written mutant to a scratch
copy of /repo/src (outside /repo and /verif), point VERIF_REPO at it, run the named check's quick
tier and expect a VIOLATION (exit 1).  The copy is removed afterwards.

usage: sensitivity.py [name-substring ...]
"""
import os
import shutil
import subprocess
import sys
import tempfile

M = []


EQUIVALENT = {
    'c05-header-ignored-regex': 'a header line that matches the regex has a non-date first cell and is skipped as a malformed row anyway',
    'c08-row-dropped-on-rule-error': 'since fix 7863984 no evaluation error reaches the per-row except clause',
}


def mut(name, check, path, old, new, runs=None):
    M.append({'name': name, 'check': check, 'path': path, 'old': old, 'new': new, 'runs': runs})


# ---- C15
mut('c15-move-csv-before-settings', 'C15', 'tally/cli.py',
    "        print(f\"      Converted {len(csv_rules)} merchant rules to new format\")\n",
    "        print(f\"      Converted {len(csv_rules)} merchant rules to new format\")\n        if backup and os.path.exists(csv_file):\n            shutil.move(csv_file, _free_backup_path(csv_file))\n")
mut('c15-rules-written-in-place', 'C15', 'tally/cli.py',
    "    tmp_path = path + '.tmp'\n    with open(tmp_path, 'w', encoding='utf-8') as f:\n        f.write(content)\n    os.replace(tmp_path, path)\n",
    "    with open(path, 'w', encoding='utf-8') as f:\n        f.write(content)\n")
mut('c15-layout-config-first', 'C15', 'tally/cli.py',
    "        for subdir in ['data', 'output']:\n            old_path = os.path.abspath(subdir)\n            if os.path.isdir(old_path):",
    "        shutil.move(old_config_dir, os.path.join(tally_dir, 'config'))\n        old_config_dir = os.path.join(tally_dir, 'config', '.nonexistent')\n        for subdir in ['data', 'output']:\n            old_path = os.path.abspath(subdir)\n            if os.path.isdir(old_path):")
mut('c15-drop-backup', 'C15', 'tally/cli.py',
    "            shutil.move(csv_file, backup_file)\n", "            os.remove(csv_file)\n")
mut('c15-clobber-existing-rules', 'C15', 'tally/cli.py',
    "        if os.path.exists(new_file):\n            # Never overwrite", "        if False:\n            # Never overwrite")
# ---- C20
mut('c20-up-migrates-without-consent', 'C20', 'tally/cli.py',
    "        should_migrate = migrate  # --migrate flag forces it", "        should_migrate = migrate or not sys.stdout.isatty()")
mut('c20-init-rewrites-settings', 'C20', 'tally/commands/init.py',
    "                with open(settings_path, 'a', encoding='utf-8') as f:\n                    f.write('\\n# Views file (custom spending views)\\n')",
    "                import yaml as _y\n                with open(settings_path, 'w', encoding='utf-8') as f:\n                    f.write(_y.safe_dump(_y.safe_load(content) or {}, sort_keys=False))\n                    f.write('\\n# Views file (custom spending views)\\n')")
mut('c20-init-regenerates-merchants', 'C20', 'tally/cli.py',
    "    if not os.path.exists(merchants_path):\n        with open(merchants_path, 'w', encoding='utf-8') as f:",
    "    if not os.path.exists(merchants_path) or os.path.getsize(merchants_path) < 200:\n        with open(merchants_path, 'w', encoding='utf-8') as f:")
mut('c20-report-next-to-settings', 'C20', 'tally/commands/run.py',
    "            output_dir = os.path.join(os.path.dirname(config_dir), config.get('output_dir', 'output'))",
    "            output_dir = config_dir if config.get('output_dir') else os.path.join(os.path.dirname(config_dir), 'output')")
mut('c20-diag-fixes-settings', 'C20', 'tally/commands/diag.py',
    "                config_issues.append(\"merchants.rules exists but not configured in settings.yaml\")",
    "                open(settings_path, 'a').write('merchants_file: config/merchants.rules\\n')")
mut('c20-discover-appends-rules', 'C20', 'tally/commands/discover.py',
    "    # Parse transactions from configured data sources\n    all_txns = []\n",
    "    if args.format == 'csv' and merchants_file:\n        open(merchants_file, 'a').write('# discovered\\n')\n    all_txns = []\n")
# ---- C07
mut('c07-stale-engine', 'C07', 'tally/merchant_utils.py',
    "    _cached_engine = None\n    _cached_engine_path = None\n\n    user_rules_with_source = []", "    user_rules_with_source = []")
mut('c07-cache-key-lower', 'C07', 'tally/expr_parser.py',
    "    if expr in _expression_cache:\n        return _expression_cache[expr]", "    if expr.lower() in _expression_cache:\n        return _expression_cache[expr.lower()]")
mut('c07-cache-key-lower-store', 'C07', 'tally/expr_parser.py',
    "        _expression_cache[expr] = tree\n        return tree", "        _expression_cache[expr.lower()] = tree\n        return tree")
mut('c07-regex-cache-upper', 'C07', 'tally/expr_parser.py',
    "            if pattern not in _regex_cache:\n                _regex_cache[pattern] = re.compile(pattern, re.IGNORECASE)\n            return bool(_regex_cache[pattern].search(text))",
    "            if pattern.upper() not in _regex_cache:\n                _regex_cache[pattern.upper()] = re.compile(pattern, re.IGNORECASE)\n            return bool(_regex_cache[pattern.upper()].search(text))")
mut('c07-scope-class-attr', 'C07', 'tally/expr_parser.py',
    "        self.ctx = ctx\n        # Scope stack for loop variables and walrus assignments\n        self._scope: Dict[str, Any] = {}",
    "        self.ctx = ctx\n        self._scope = TransactionEvaluator._shared_scope")
mut('c07-engine-reused-by-path', 'C07', 'tally/merchant_utils.py',
    "            try:\n                from .merchant_engine import load_merchants_file\n                from pathlib import Path\n                engine = load_merchants_file(Path(rules_path), match_mode=match_mode)\n\n                # Cache the engine",
    "            try:\n                from .merchant_engine import load_merchants_file\n                from pathlib import Path\n                engine = _PATH_CACHE.get(rules_path) or load_merchants_file(Path(rules_path), match_mode=match_mode)\n                _PATH_CACHE[rules_path] = engine\n\n                # Cache the engine")
mut('c07-sort-rules-in-place', 'C07', 'tally/merchant_engine.py',
    "            # most_specific mode: resolve each field independently by specificity\n            if matching_rules:",
    "            # most_specific mode: resolve each field independently by specificity\n            self.rules.sort(key=calculate_specificity, reverse=True)\n            if matching_rules:")
# ---- C17
mut('c17-unknown-property-ignored', 'C17', 'tally/merchant_engine.py',
    "                else:\n                    raise MerchantParseError(\n                        f\"Unknown property: {key}\", line_num, line\n                    )",
    "                else:\n                    pass")
mut('c17-missing-match-dropped', 'C17', 'tally/merchant_engine.py',
    "        if 'match_expr' not in rule_data:\n            raise MerchantParseError(\n                f\"Rule '{rule_data['name']}' missing 'match:' expression\",\n                line_number\n            )",
    "        if 'match_expr' not in rule_data:\n            return")
mut('c17-key-case-sensitive', 'C17', 'tally/merchant_engine.py',
    "                key = key.strip().lower()", "                key = key.strip()")
mut('c17-swallow-load-error', 'C17', 'tally/merchant_utils.py',
    "                raise RulesLoadError(f\"Error loading rules file {rules_path}: {e}\") from e", "                pass")
mut('c17-views-error-not-warned', 'C17', 'tally/config_loader.py',
    "                warnings.append({\n                    'type': 'error',\n                    'source': views_file,",
    "                ({}).update({\n                    'type': 'error',\n                    'source': views_file,")
mut('c17-crlf-lost', 'C17', 'tally/merchant_engine.py',
    "            stripped = line.strip()\n\n            # Skip empty lines and comments", "            stripped = line.strip(' \\t\\n')\n\n            # Skip empty lines and comments")
# ---- C05
mut('c05-off-by-one-columns', 'C05', 'tally/parsers.py', "            if len(row) <= max_col:", "            if len(row) < max_col:")
mut('c05-negate-before-abs', 'C05', 'tally/parsers.py',
    "            if format_spec.abs_amount:\n                # Absolute value: all amounts become positive (for mixed-sign sources)\n                amount = abs(amount)\n            elif format_spec.negate_amount:",
    "            if format_spec.negate_amount:\n                amount = -amount\n            elif format_spec.abs_amount:\n                amount = abs(amount)\n            elif False:")
mut('c05-break-on-bad-row', 'C05', 'tally/parsers.py',
    "        except (ValueError, IndexError):\n            # Skip problematic rows\n            continue\n\n    return transactions\n\n\ndef auto_detect",
    "        except (ValueError, IndexError):\n            # Skip problematic rows\n            break\n\n    return transactions\n\n\ndef auto_detect")
mut('c05-nonfinite-accepted', 'C05', 'tally/parsers.py', "            if not math.isfinite(amount):\n                continue\n", "")
mut('c05-header-ignored-regex', 'C05', 'tally/parsers.py', "                if has_header and i == 0:\n                    continue", "                pass")
mut('c05-zero-kept', 'C05', 'tally/parsers.py', "            if amount == 0:\n                continue\n\n            # Track if this is a credit", "            # Track if this is a credit")
# ---- C08
mut('c08-evaluator-leaks', 'C08', 'tally/expr_parser.py',
    "            except Exception as e:\n                raise ExpressionError(f\"{type(e).__name__}: {e}\") from e\n        raise ExpressionError(f\"Cannot evaluate node type: {type(node).__name__}\")\n\n    def _eval_Expression(self, node: ast.Expression) -> Any:\n        return self.evaluate(node.body)\n\n    def _eval_Constant(self, node: ast.Constant) -> Any:\n        return node.value\n\n    def _eval_Name(self, node: ast.Name) -> Any:\n        name = node.id.lower()\n\n        # Check loop variable",
    "            except ZeroDivisionError as e:\n                raise ExpressionError(f\"{type(e).__name__}: {e}\") from e\n        raise ExpressionError(f\"Cannot evaluate node type: {type(node).__name__}\")\n\n    def _eval_Expression(self, node: ast.Expression) -> Any:\n        return self.evaluate(node.body)\n\n    def _eval_Constant(self, node: ast.Constant) -> Any:\n        return node.value\n\n    def _eval_Name(self, node: ast.Name) -> Any:\n        name = node.id.lower()\n\n        # Check loop variable")
mut('c08-match-break', 'C08', 'tally/merchant_engine.py',
    "            except expr_parser.ExpressionError:\n                # Skip rules that can't be evaluated\n                continue", "            except expr_parser.ExpressionError:\n                break")
mut('c08-tags-no-try', 'C08', 'tally/merchant_engine.py',
    "                except expr_parser.ExpressionError:\n                    # Skip invalid expressions silently\n                    pass\n            else:\n                # Static tag\n                resolved.add(tag.lower())\n\n        return resolved",
    "                except ZeroDivisionError:\n                    pass\n            else:\n                # Static tag\n                resolved.add(tag.lower())\n\n        return resolved")
mut('c08-view-filter-true-on-error', 'C08', 'tally/section_engine.py',
    "        return bool(result)\n    except expr_parser.ExpressionError:\n        return False", "        return bool(result)\n    except expr_parser.ExpressionError:\n        return True")
mut('c08-row-dropped-on-rule-error', 'C08', 'tally/parsers.py',
    "        except (ValueError, IndexError):\n            # Skip problematic rows\n            continue\n\n    return transactions\n\n\ndef auto_detect",
    "        except Exception:\n            continue\n\n    return transactions\n\n\ndef auto_detect", runs=None)
# ---- C11
mut('c11-no-transforms', 'C11', 'tally/commands/run.py', "                                         transforms=transforms,\n", "")
mut('c11-no-decimal-separator', 'C11', 'tally/commands/run.py', "                                         decimal_separator=source.get('decimal_separator', '.'),\n", "")
mut('c11-no-data-sources', 'C11', 'tally/commands/run.py', "                                         data_sources=supplemental_data)", "                                         )")
mut('c11-rule-mode-ignored', 'C11', 'tally/cli.py', "        rules = get_all_rules(merchants_file, match_mode=rule_mode)\n        if not quiet:\n            print(f\"Loaded {len(rules)}",
    "        rules = get_all_rules(merchants_file)\n        if not quiet:\n            print(f\"Loaded {len(rules)}")
mut('c11-has-header-ignored', 'C11', 'tally/config_loader.py', "            if 'has_header' in source:\n                format_spec.has_header = source['has_header']\n", "")
mut('c11-delimiter-ignored', 'C11', 'tally/config_loader.py', "            if 'delimiter' in source:\n                format_spec.delimiter = source['delimiter']\n", "")
mut('c11-supplemental-key-not-lowered', 'C11', 'tally/config_loader.py', "        source_name = source.get('name', '').lower()", "        source_name = source.get('name', '')")
mut('c11-supplemental-contributes', 'C11', 'tally/commands/run.py', "        if source.get('_supplemental', False):\n            continue\n\n        filepath = os.path.join(config_dir, '..', source['file'])", "        filepath = os.path.join(config_dir, '..', source['file'])")
mut('c11-source-error-aborts', 'C11', 'tally/commands/run.py',
    "        except Exception as e:\n            if not args.quiet:\n                print(f\"  {source['name']}: Error parsing - {e}\")\n            continue",
    "        except Exception as e:\n            print(f\"  {source['name']}: Error parsing - {e}\")\n            sys.exit(1)")
mut('c11-file-not-found-silent', 'C11', 'tally/commands/run.py',
    "            if not args.quiet:\n                print(f\"  {source['name']}: File not found - {source['file']}\")\n            continue",
    "            if args.verbose > 1:\n                print(f\"  {source['name']}: File not found - {source['file']}\")\n            continue")
mut('c11-failing-source-clears-all', 'C11', 'tally/commands/run.py',
    "            if not args.quiet:\n                print(f\"  {source['name']}: Error parsing - {e}\")\n            continue",
    "            if not args.quiet:\n                print(f\"  {source['name']}: Error parsing - {e}\")\n            all_txns = []\n            continue")
mut('c11-negate-setting-ignored', 'C11', 'tally/config_loader.py', "            if 'negate_amount' in source:\n                format_spec.negate_amount = source['negate_amount']\n", "")


def main():
    sel = sys.argv[1:]
    src = os.environ.get('VERIF_REPO_SRC', '/repo/src')
    here = os.path.dirname(os.path.dirname(os.path.abspath(__file__)))
    results = []
    for m in M:
        if sel and not any(s in m['name'] for s in sel):
            continue
        tmp = tempfile.mkdtemp(prefix='tallymut-')
        try:
            shutil.copytree(src, os.path.join(tmp, 'src'))
            p = os.path.join(tmp, 'src', m['path'])
            text = open(p, encoding='utf-8').read()
            if text.count(m['old']) != 1:
                results.append((m['name'], m['check'], 'PATCH-DOES-NOT-APPLY (%d matches)' % text.count(m['old'])))
                print(results[-1], flush=True)
                continue
            text = text.replace(m['old'], m['new'])
            if 'c07-scope-class-attr' == m['name']:
                text = text.replace("class TransactionEvaluator:\n", "class TransactionEvaluator:\n    _shared_scope = {}\n", 1)
            if 'c07-engine-reused-by-path' == m['name']:
                text = text.replace("_cached_engine_path: Optional[str] = None\n", "_cached_engine_path: Optional[str] = None\n_PATH_CACHE = {}\n", 1)
            open(p, 'w', encoding='utf-8').write(text)
            env = dict(os.environ, VERIF_REPO=tmp)
            env.pop('TALLYSIM_BOOTED', None)
            if m.get('runs'):
                env['VERIF_RUNS'] = str(m['runs'])
            pr = subprocess.run([sys.executable, '-B', os.path.join(here, 'check'), m['check'], '--tier', 'quick'],
                                stdout=subprocess.PIPE, stderr=subprocess.STDOUT, env=env, timeout=3000)
            out = pr.stdout.decode('utf-8', 'replace')
            first = [ln for ln in out.split('\n') if 'invariant=' in ln][:1]
            verdict = {1: 'DETECTED', 0: 'MISSED', 2: 'HARNESS-ERROR'}.get(pr.returncode, 'exit %d' % pr.returncode)
            results.append((m['name'], m['check'], verdict, first[0].strip()[:160] if first else out.strip().split('\n')[-1][:160]))
            print(results[-1], flush=True)
        finally:
            shutil.rmtree(tmp, ignore_errors=True)
    missed = [r for r in results if r[2] != 'DETECTED' and r[0] not in EQUIVALENT]
    for r in results:
        if r[2] != 'DETECTED' and r[0] in EQUIVALENT:
            print('  equivalent under the property (not counted):', r[0], '-', EQUIVALENT[r[0]])
    print('\n%d mutants, %d detected, %d not' % (len(results), len(results) - len(missed), len(missed)))
    for r in missed:
        print('  NOT DETECTED:', r)
    return 1 if missed else 0


if __name__ == '__main__':
    sys.exit(main())
